//! Recording `serde::Serializer`: `Ok` is the event the value produced. A newtype struct is recorded as
//! (depth+1, name) around the inner value's own event, so "serializes exactly as a newtype struct around the
//! inner value" is an equality of records.
use super::de::E;
use serde::ser::{self, Impossible, Serialize, Serializer};

#[derive(Debug, Clone, Copy, PartialEq)]
pub enum SEv {
    U8(u8), U16(u16), U32(u32), U64(u64), U128(u128), I8(i8), I16(i16), I32(i32), I64(i64), I128(i128),
    F32(u32), F64(u64), Bool(bool), Char(char), Unit, None,
    /// text: up to 4 bytes + length
    Str([u8; 4], u8),
    /// tuple/array of up to 2 u64-convertible items
    Tup(u64, u64, u8),
    /// struct with 2 i64 fields (the harness' `P { x, y }`)
    Struct2(i64, i64),
}

#[derive(Debug, Clone, Copy, PartialEq)]
pub struct Rec { pub ev: SEv, pub newtype_depth: u8, pub name_len: usize, pub name_first: u8, pub name_last: u8, pub some_depth: u8, pub seq_kind: u8 }

fn rec(ev: SEv) -> Result<Rec, E> { Ok(Rec { ev, newtype_depth: 0, name_len: 0, name_first: 0, name_last: 0, some_depth: 0, seq_kind: 0 }) }

pub struct RecSer;

pub struct TupRec { a: u64, b: u64, n: u8, kind: u8 }   // kind: 1 = tuple (fixed size), 2 = seq
fn as_u64(r: Rec) -> u64 {
    match r.ev { SEv::U8(v) => v as u64, SEv::U16(v) => v as u64, SEv::U32(v) => v as u64, SEv::U64(v) => v, SEv::I8(v) => v as u64, SEv::I16(v) => v as u64,
                 SEv::I32(v) => v as u64, SEv::I64(v) => v as u64, SEv::Bool(v) => v as u64, _ => 0xdead }
}
impl ser::SerializeTuple for TupRec {
    type Ok = Rec; type Error = E;
    fn serialize_element<T: ?Sized + Serialize>(&mut self, value: &T) -> Result<(), E> {
        let r = value.serialize(RecSer)?;
        if self.n == 0 { self.a = as_u64(r); } else if self.n == 1 { self.b = as_u64(r); }
        self.n += 1; Ok(())
    }
    fn end(self) -> Result<Rec, E> { let k = self.kind; let mut r = rec(SEv::Tup(self.a, self.b, self.n))?; r.seq_kind = k; Ok(r) }
}
impl ser::SerializeSeq for TupRec {
    type Ok = Rec; type Error = E;
    fn serialize_element<T: ?Sized + Serialize>(&mut self, value: &T) -> Result<(), E> { ser::SerializeTuple::serialize_element(self, value) }
    fn end(self) -> Result<Rec, E> { ser::SerializeTuple::end(self) }
}
pub struct StructRec { a: i64, b: i64, n: u8 }
impl ser::SerializeStruct for StructRec {
    type Ok = Rec; type Error = E;
    fn serialize_field<T: ?Sized + Serialize>(&mut self, _key: &'static str, value: &T) -> Result<(), E> {
        let r = value.serialize(RecSer)?;
        if self.n == 0 { self.a = as_u64(r) as i64; } else { self.b = as_u64(r) as i64; }
        self.n += 1; Ok(())
    }
    fn end(self) -> Result<Rec, E> { rec(SEv::Struct2(self.a, self.b)) }
}

impl Serializer for RecSer {
    type Ok = Rec; type Error = E;
    type SerializeSeq = TupRec; type SerializeTuple = TupRec;
    type SerializeTupleStruct = Impossible<Rec, E>; type SerializeTupleVariant = Impossible<Rec, E>;
    type SerializeMap = Impossible<Rec, E>; type SerializeStruct = StructRec; type SerializeStructVariant = Impossible<Rec, E>;
    fn serialize_bool(self, v: bool) -> Result<Rec, E> { rec(SEv::Bool(v)) }
    fn serialize_i8(self, v: i8) -> Result<Rec, E> { rec(SEv::I8(v)) }
    fn serialize_i16(self, v: i16) -> Result<Rec, E> { rec(SEv::I16(v)) }
    fn serialize_i32(self, v: i32) -> Result<Rec, E> { rec(SEv::I32(v)) }
    fn serialize_i64(self, v: i64) -> Result<Rec, E> { rec(SEv::I64(v)) }
    fn serialize_i128(self, v: i128) -> Result<Rec, E> { rec(SEv::I128(v)) }
    fn serialize_u8(self, v: u8) -> Result<Rec, E> { rec(SEv::U8(v)) }
    fn serialize_u16(self, v: u16) -> Result<Rec, E> { rec(SEv::U16(v)) }
    fn serialize_u32(self, v: u32) -> Result<Rec, E> { rec(SEv::U32(v)) }
    fn serialize_u64(self, v: u64) -> Result<Rec, E> { rec(SEv::U64(v)) }
    fn serialize_u128(self, v: u128) -> Result<Rec, E> { rec(SEv::U128(v)) }
    fn serialize_f32(self, v: f32) -> Result<Rec, E> { rec(SEv::F32(v.to_bits())) }
    fn serialize_f64(self, v: f64) -> Result<Rec, E> { rec(SEv::F64(v.to_bits())) }
    fn serialize_char(self, v: char) -> Result<Rec, E> { rec(SEv::Char(v)) }
    fn serialize_str(self, v: &str) -> Result<Rec, E> {
        let b = v.as_bytes(); let mut a = [0u8; 4]; let n = b.len();
        if n > 0 { a[0] = b[0]; } if n > 1 { a[1] = b[1]; } if n > 2 { a[2] = b[2]; } if n > 3 { a[3] = b[3]; }
        rec(SEv::Str(a, n as u8))
    }
    fn serialize_bytes(self, _v: &[u8]) -> Result<Rec, E> { Err(E) }
    fn serialize_none(self) -> Result<Rec, E> { rec(SEv::None) }
    fn serialize_some<T: ?Sized + Serialize>(self, value: &T) -> Result<Rec, E> { let mut r = value.serialize(RecSer)?; r.some_depth += 1; Ok(r) }
    fn serialize_unit(self) -> Result<Rec, E> { rec(SEv::Unit) }
    fn serialize_unit_struct(self, _n: &'static str) -> Result<Rec, E> { rec(SEv::Unit) }
    fn serialize_unit_variant(self, _n: &'static str, _i: u32, _v: &'static str) -> Result<Rec, E> { Err(E) }
    fn serialize_newtype_struct<T: ?Sized + Serialize>(self, name: &'static str, value: &T) -> Result<Rec, E> {
        let mut r = value.serialize(RecSer)?;
        r.newtype_depth += 1;
        let b = name.as_bytes();
        r.name_len = b.len();
        r.name_first = if b.len() > 0 { b[0] } else { 0 };
        r.name_last = if b.len() > 0 { b[b.len() - 1] } else { 0 };
        Ok(r)
    }
    fn serialize_newtype_variant<T: ?Sized + Serialize>(self, _n: &'static str, _i: u32, _v: &'static str, _value: &T) -> Result<Rec, E> { Err(E) }
    fn serialize_seq(self, _len: Option<usize>) -> Result<TupRec, E> { Ok(TupRec { a: 0, b: 0, n: 0, kind: 2 }) }
    fn serialize_tuple(self, _len: usize) -> Result<TupRec, E> { Ok(TupRec { a: 0, b: 0, n: 0, kind: 1 }) }
    fn serialize_tuple_struct(self, _n: &'static str, _len: usize) -> Result<Impossible<Rec, E>, E> { Err(E) }
    fn serialize_tuple_variant(self, _n: &'static str, _i: u32, _v: &'static str, _len: usize) -> Result<Impossible<Rec, E>, E> { Err(E) }
    fn serialize_map(self, _len: Option<usize>) -> Result<Impossible<Rec, E>, E> { Err(E) }
    fn serialize_struct(self, _n: &'static str, _len: usize) -> Result<StructRec, E> { Ok(StructRec { a: 0, b: 0, n: 0 }) }
    fn serialize_struct_variant(self, _n: &'static str, _i: u32, _v: &'static str, _len: usize) -> Result<Impossible<Rec, E>, E> { Err(E) }
    fn is_human_readable(&self) -> bool { true }
}
