//! Hand-written support shared by generated harness modules: stubs, recording sinks, string builders.
