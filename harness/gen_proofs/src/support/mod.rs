//! Hand-written support shared by generated harness modules: stubs, recording sinks, string builders.
pub mod de;
pub mod ser;
pub mod rec;
pub mod strmodel;

/// `false` natively, `true` under verification (stubbed by harnesses that need to know whether
/// `-Z stubbing` models are in force; concrete playback runs the real functions).
pub fn is_symbolic() -> bool { false }
pub fn is_symbolic_true() -> bool { true }
