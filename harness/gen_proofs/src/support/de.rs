//! Data-model level stub `serde::Deserializer`: delivers ONE arbitrary event the way serde_json / ron / rmp-serde
//! call visitors. `deserialize_newtype_struct(name, v)` -> `v.visit_newtype_struct(self)` (what those three formats do).
//! Errors are a unit struct: `Error::custom` never formats (message text is property C16's subject).
use serde::de::{self, DeserializeSeed, Deserializer, MapAccess, SeqAccess, Visitor};

#[derive(Debug, Clone, Copy, PartialEq, Eq)]
pub struct E;
impl core::fmt::Display for E { fn fmt(&self, _f: &mut core::fmt::Formatter<'_>) -> core::fmt::Result { Ok(()) } }
impl std::error::Error for E {}
impl de::Error for E { fn custom<T: core::fmt::Display>(_msg: T) -> Self { E } }
impl serde::ser::Error for E { fn custom<T: core::fmt::Display>(_msg: T) -> Self { E } }

/// How a text event reaches the visitor: formats lend the input (`visit_borrowed_str`) when no unescaping is
/// needed, hand out a scratch buffer (`visit_str`) when it is, or an owned `String`.
#[derive(Debug, Clone, Copy, PartialEq, Eq)]
pub enum StrMode { Borrowed, Transient, Owned }

#[derive(Debug, Clone, Copy)]
pub enum Ev<'de> {
    U8(u8), U16(u16), U32(u32), U64(u64),
    I8(i8), I16(i16), I32(i32), I64(i64),
    F32(f32), F64(f64), Bool(bool), Char(char), Unit, None,
    Str(&'de str, StrMode),
    /// a sequence of `n` (<= 2) copies-with-own-payload events
    Seq2(Prim, Prim, u8),
    /// `Some(prim)` as formats with explicit option markers deliver it (RON `Some(..)`, MessagePack non-nil)
    SomeOf(Prim),
}

/// primitive payloads usable inside containers (kept small so the enum stays Copy and cheap)
#[derive(Debug, Clone, Copy)]
pub enum Prim { U64(u64), I64(i64), F64(f64), Bool(bool), Unit }

impl Prim {
    pub fn ev<'de>(self) -> Ev<'de> {
        match self { Prim::U64(v) => Ev::U64(v), Prim::I64(v) => Ev::I64(v), Prim::F64(v) => Ev::F64(v), Prim::Bool(v) => Ev::Bool(v), Prim::Unit => Ev::Unit }
    }
}

#[cfg(kani)]
impl kani::Arbitrary for Prim {
    fn any() -> Self {
        match kani::any::<u8>() % 5 { 0 => Prim::U64(kani::any()), 1 => Prim::I64(kani::any()), 2 => Prim::F64(kani::any()), 3 => Prim::Bool(kani::any()), _ => Prim::Unit }
    }
}

pub static mut LAST_NEWTYPE_NAME: &'static str = "";
pub static mut NEWTYPE_CALLS: u32 = 0;

#[derive(Clone, Copy)]
pub struct StubDe<'de> { pub ev: Ev<'de> }

impl<'de> StubDe<'de> {
    pub fn new(ev: Ev<'de>) -> Self { StubDe { ev } }
    fn deliver<V: Visitor<'de>>(self, v: V) -> Result<V::Value, E> {
        match self.ev {
            Ev::U8(x) => v.visit_u8(x), Ev::U16(x) => v.visit_u16(x), Ev::U32(x) => v.visit_u32(x), Ev::U64(x) => v.visit_u64(x),
            Ev::I8(x) => v.visit_i8(x), Ev::I16(x) => v.visit_i16(x), Ev::I32(x) => v.visit_i32(x), Ev::I64(x) => v.visit_i64(x),
            Ev::F32(x) => v.visit_f32(x), Ev::F64(x) => v.visit_f64(x), Ev::Bool(x) => v.visit_bool(x), Ev::Char(x) => v.visit_char(x),
            Ev::Unit => v.visit_unit(), Ev::None => v.visit_unit(),
            Ev::Str(s, StrMode::Borrowed) => v.visit_borrowed_str(s),
            Ev::Str(s, StrMode::Transient) => v.visit_str(s),
            Ev::Str(s, StrMode::Owned) => v.visit_string(String::from(s)),
            Ev::Seq2(a, b, n) => v.visit_seq(Seq { a, b, n, i: 0 }),
            Ev::SomeOf(p) => v.visit_some(StubDe { ev: p.ev() }),
        }
    }
}

pub struct Seq { a: Prim, b: Prim, n: u8, i: u8 }
impl<'de> SeqAccess<'de> for Seq {
    type Error = E;
    fn next_element_seed<T: DeserializeSeed<'de>>(&mut self, seed: T) -> Result<Option<T::Value>, E> {
        if self.i >= self.n { return Ok(None); }
        let p = if self.i == 0 { self.a } else { self.b };
        self.i += 1;
        seed.deserialize(StubDe { ev: p.ev() }).map(Some)
    }
    fn size_hint(&self) -> Option<usize> { Some((self.n - self.i) as usize) }
}

/// one-entry map  { key: value }  for struct-field / map positions
pub struct Map1<'de> { pub key: &'de str, pub val: Ev<'de>, pub state: u8 }
impl<'de> MapAccess<'de> for Map1<'de> {
    type Error = E;
    fn next_key_seed<K: DeserializeSeed<'de>>(&mut self, seed: K) -> Result<Option<K::Value>, E> {
        if self.state != 0 { return Ok(None); }
        self.state = 1;
        seed.deserialize(StubDe { ev: Ev::Str(self.key, StrMode::Borrowed) }).map(Some)
    }
    fn next_value_seed<V: DeserializeSeed<'de>>(&mut self, seed: V) -> Result<V::Value, E> {
        self.state = 2;
        seed.deserialize(StubDe { ev: self.val })
    }
}

/// Deserializer presenting `{ key: val }`
#[derive(Clone, Copy)]
pub struct StubMapDe<'de> { pub key: &'de str, pub val: Ev<'de> }

macro_rules! fwd_any { ($($m:ident)*) => { $( fn $m<V: Visitor<'de>>(self, v: V) -> Result<V::Value, E> { self.deliver(v) } )* } }

impl<'de> Deserializer<'de> for StubDe<'de> {
    type Error = E;
    fwd_any! { deserialize_any deserialize_bool deserialize_i8 deserialize_i16 deserialize_i32 deserialize_i64 deserialize_i128
               deserialize_u8 deserialize_u16 deserialize_u32 deserialize_u64 deserialize_u128 deserialize_f32 deserialize_f64
               deserialize_char deserialize_str deserialize_string deserialize_bytes deserialize_byte_buf deserialize_unit
               deserialize_seq deserialize_map deserialize_identifier deserialize_ignored_any }
    fn deserialize_option<V: Visitor<'de>>(self, v: V) -> Result<V::Value, E> {
        match self.ev {
            Ev::None => v.visit_none(),
            Ev::SomeOf(p) => v.visit_some(StubDe { ev: p.ev() }),
            // JSON semantics: anything that is not `null` is `Some(<the value itself>)`
            _ => v.visit_some(self),
        }
    }
    fn deserialize_unit_struct<V: Visitor<'de>>(self, _n: &'static str, v: V) -> Result<V::Value, E> { self.deliver(v) }
    fn deserialize_newtype_struct<V: Visitor<'de>>(self, name: &'static str, v: V) -> Result<V::Value, E> {
        unsafe { LAST_NEWTYPE_NAME = name; NEWTYPE_CALLS += 1; }
        v.visit_newtype_struct(self)
    }
    fn deserialize_tuple<V: Visitor<'de>>(self, _len: usize, v: V) -> Result<V::Value, E> { self.deliver(v) }
    fn deserialize_tuple_struct<V: Visitor<'de>>(self, _n: &'static str, _len: usize, v: V) -> Result<V::Value, E> { self.deliver(v) }
    fn deserialize_struct<V: Visitor<'de>>(self, _n: &'static str, _f: &'static [&'static str], v: V) -> Result<V::Value, E> { self.deliver(v) }
    fn deserialize_enum<V: Visitor<'de>>(self, _n: &'static str, _vs: &'static [&'static str], v: V) -> Result<V::Value, E> { self.deliver(v) }
    fn is_human_readable(&self) -> bool { true }
}

impl<'de> Deserializer<'de> for StubMapDe<'de> {
    type Error = E;
    fn deserialize_any<V: Visitor<'de>>(self, v: V) -> Result<V::Value, E> { v.visit_map(Map1 { key: self.key, val: self.val, state: 0 }) }
    serde::forward_to_deserialize_any! { bool i8 i16 i32 i64 i128 u8 u16 u32 u64 u128 f32 f64 char str string bytes byte_buf option unit unit_struct
        newtype_struct seq tuple tuple_struct map struct enum identifier ignored_any }
}

/// 128-bit integer events get their own deserializer type: serde's default `visit_u128`/`visit_i128` (what every visitor
/// other than the 128-bit primitive ones inherits) formats the number into the error message, so a 128-bit arm inside
/// `StubDe::deliver` would drag `core::fmt::num` into every harness.
#[derive(Clone, Copy)]
pub enum Ev128 { U(u128), I(i128) }
#[derive(Clone, Copy)]
pub struct StubDe128 { pub ev: Ev128 }
impl StubDe128 {
    fn deliver<'de, V: Visitor<'de>>(self, v: V) -> Result<V::Value, E> { match self.ev { Ev128::U(x) => v.visit_u128(x), Ev128::I(x) => v.visit_i128(x) } }
}
impl<'de> Deserializer<'de> for StubDe128 {
    type Error = E;
    fn deserialize_any<V: Visitor<'de>>(self, v: V) -> Result<V::Value, E> { self.deliver(v) }
    fn deserialize_newtype_struct<V: Visitor<'de>>(self, name: &'static str, v: V) -> Result<V::Value, E> {
        unsafe { LAST_NEWTYPE_NAME = name; NEWTYPE_CALLS += 1; }
        v.visit_newtype_struct(self)
    }
    serde::forward_to_deserialize_any! { bool i8 i16 i32 i64 i128 u8 u16 u32 u64 u128 f32 f64 char str string bytes byte_buf option unit unit_struct
        seq tuple tuple_struct map struct enum identifier ignored_any }
}

/// A deserializer that answers `deserialize_newtype_struct` the way non-self-describing "sequence" formats and
/// `serde::de::value::SeqDeserializer` may: by handing the visitor a ONE-ELEMENT SEQUENCE (`visit_seq`).  A visitor that
/// accepts this path must still run the constructor on the element.
#[derive(Clone, Copy)]
pub struct StubDeSeq<'de> { pub ev: Ev<'de> }
pub struct SeqEv<'de> { ev: Ev<'de>, done: bool }
impl<'de> SeqAccess<'de> for SeqEv<'de> {
    type Error = E;
    fn next_element_seed<T: DeserializeSeed<'de>>(&mut self, seed: T) -> Result<Option<T::Value>, E> {
        if self.done { return Ok(None); }
        self.done = true;
        seed.deserialize(StubDe { ev: self.ev }).map(Some)
    }
    fn size_hint(&self) -> Option<usize> { Some(if self.done { 0 } else { 1 }) }
}
impl<'de> Deserializer<'de> for StubDeSeq<'de> {
    type Error = E;
    fn deserialize_any<V: Visitor<'de>>(self, v: V) -> Result<V::Value, E> { v.visit_seq(SeqEv { ev: self.ev, done: false }) }
    fn deserialize_newtype_struct<V: Visitor<'de>>(self, _name: &'static str, v: V) -> Result<V::Value, E> { v.visit_seq(SeqEv { ev: self.ev, done: false }) }
    serde::forward_to_deserialize_any! { bool i8 i16 i32 i64 i128 u8 u16 u32 u64 u128 f32 f64 char str string bytes byte_buf option unit unit_struct
        seq tuple tuple_struct map struct enum identifier ignored_any }
}

/// RON-like option handling: `Option<T>` must be written explicitly (`Some(..)` / `None`); a bare value is NOT an option.
/// (JSON and MessagePack treat every non-null value as `Some`, which is what `StubDe` models.)
#[derive(Clone, Copy)]
pub struct StubDeStrictOpt<'de> { pub ev: Ev<'de> }
impl<'de> Deserializer<'de> for StubDeStrictOpt<'de> {
    type Error = E;
    fn deserialize_any<V: Visitor<'de>>(self, v: V) -> Result<V::Value, E> { StubDe { ev: self.ev }.deserialize_any(v) }
    fn deserialize_option<V: Visitor<'de>>(self, v: V) -> Result<V::Value, E> {
        match self.ev { Ev::None => v.visit_none(), Ev::SomeOf(p) => v.visit_some(StubDeStrictOpt { ev: p.ev() }), _ => Err(E) }
    }
    fn deserialize_newtype_struct<V: Visitor<'de>>(self, name: &'static str, v: V) -> Result<V::Value, E> {
        unsafe { LAST_NEWTYPE_NAME = name; NEWTYPE_CALLS += 1; }
        v.visit_newtype_struct(self)
    }
    serde::forward_to_deserialize_any! { bool i8 i16 i32 i64 i128 u8 u16 u32 u64 u128 f32 f64 char str string bytes byte_buf unit unit_struct
        seq tuple tuple_struct map struct enum identifier ignored_any }
}
