//! Recording `Hasher` (logs the sequence of `write_*` calls) and a recording `fmt::Write` sink.
use core::hash::Hasher;

#[derive(Debug, Clone, Copy, PartialEq, Eq)]
pub struct RecHasher { pub log: [(u8, u128); 6], pub n: usize, pub bytes: [u8; 8], pub nb: usize, pub overflow: bool }
impl RecHasher {
    pub fn new() -> Self { RecHasher { log: [(0, 0); 6], n: 0, bytes: [0; 8], nb: 0, overflow: false } }
    fn push(&mut self, tag: u8, v: u128) { if self.n < 6 { self.log[self.n] = (tag, v); self.n += 1; } else { self.overflow = true; } }
}
impl Hasher for RecHasher {
    fn finish(&self) -> u64 { 0 }
    fn write(&mut self, bytes: &[u8]) {
        self.push(1, bytes.len() as u128);
        let mut i = 0;
        while i < bytes.len() { if self.nb < 8 { self.bytes[self.nb] = bytes[i]; self.nb += 1; } else { self.overflow = true; } i += 1; }
    }
    fn write_u8(&mut self, i: u8) { self.push(2, i as u128) }
    fn write_u16(&mut self, i: u16) { self.push(3, i as u128) }
    fn write_u32(&mut self, i: u32) { self.push(4, i as u128) }
    fn write_u64(&mut self, i: u64) { self.push(5, i as u128) }
    fn write_u128(&mut self, i: u128) { self.push(6, i) }
    fn write_usize(&mut self, i: usize) { self.push(7, i as u128) }
    fn write_i8(&mut self, i: i8) { self.push(8, i as u8 as u128) }
    fn write_i16(&mut self, i: i16) { self.push(9, i as u16 as u128) }
    fn write_i32(&mut self, i: i32) { self.push(10, i as u32 as u128) }
    fn write_i64(&mut self, i: i64) { self.push(11, i as u64 as u128) }
    fn write_i128(&mut self, i: i128) { self.push(12, i as u128) }
    fn write_isize(&mut self, i: isize) { self.push(13, i as usize as u128) }
}
