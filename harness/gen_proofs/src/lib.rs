#![allow(dead_code, unused_imports, static_mut_refs)]
#[cfg(kani)]
mod probe {
    use nutype::nutype;
    static mut LO: i32 = 0;
    static mut HI: i32 = 0;
    fn lo() -> i32 { unsafe { LO } }
    fn hi() -> i32 { unsafe { HI } }

    #[nutype(validate(greater = lo(), less_or_equal = hi()), derive(Debug, TryFrom))]
    struct A(i32);

    #[kani::proof]
    fn probe_a() {
        let l: i32 = kani::any(); let h: i32 = kani::any();
        unsafe { LO = l; HI = h; }
        let x: i32 = kani::any();
        let r = A::try_new(x);
        let ok = x > l && x <= h;
        kani::cover!(r.is_ok());
        kani::cover!(r.is_err());
        match r {
            Ok(v) => { assert!(ok); assert!(v.into_inner() == x); }
            Err(AError::GreaterViolated) => assert!(x <= l),
            Err(AError::LessOrEqualViolated) => assert!(x > l && x > h),
        }
    }
    #[kani::proof]
    fn probe_a_must_fail() {
        let l: i32 = kani::any(); let h: i32 = kani::any();
        unsafe { LO = l; HI = h; }
        let x: i32 = kani::any();
        let r = A::try_new(x);
        assert!(r.is_ok() == (x > l && x < h));
    }
}
