fn main() {
    // the guard of the /repo hooks: only this mirror crate ever sets it
    println!("cargo:rustc-cfg=nutype_verif");
    println!("cargo:rustc-cfg=ERROR_IN_CORE");
}
