//! Engine M: `#[path]`-includes the module trees of /repo/nutype_macros/src (current working tree) and runs Kani
//! harnesses on the macro's own validation layer with symbolic configurations.
#![allow(dead_code, unused_imports, unused_variables, unused_mut, static_mut_refs, clippy::all)]

#[path = "/repo/nutype_macros/src/any/mod.rs"] mod any;
#[path = "/repo/nutype_macros/src/common/mod.rs"] mod common;
#[path = "/repo/nutype_macros/src/float/mod.rs"] mod float;
#[path = "/repo/nutype_macros/src/integer/mod.rs"] mod integer;
#[path = "/repo/nutype_macros/src/string/mod.rs"] mod string;
#[path = "/repo/nutype_macros/src/utils/mod.rs"] mod utils;

#[cfg(feature = "c08")] mod gen_c08;
