//! C08 — the macro's validation layer decided for all configurations it ranges over (Engine M).
//!
//! Verdict observation: these functions signal rejection only by constructing a `syn::Error`.  `syn::Error::new`
//! is replaced (`-Z stubbing`) by `reject()`: it asserts that the independent reference predicate expects a
//! rejection and ends the path; the statement after the call asserts that the reference expects acceptance.
use crate::common::models::{DeriveTrait, SpannedItem, ValueOrExpr};
use crate::common::validate::{validate_duplicates, validate_numeric_bounds, validate_traits_from_xor_try_from};
use crate::float::models::{FloatValidator, FloatSanitizer};
use crate::integer::models::IntegerValidator;
use crate::string::models::{StringSanitizer, StringValidator};
use core::mem::ManuallyDrop;
use proc_macro2::Span;

static mut EXPECT_REJECT: bool = false;

fn reject<T: core::fmt::Display>(_span: Span, _message: T) -> syn::Error {
    assert!(unsafe { EXPECT_REJECT }, "the macro REJECTS a declaration the reference predicate accepts");
    kani::assume(false);
    loop {}
}

fn nth_trait(i: u8) -> DeriveTrait {
    match i {
        0 => DeriveTrait::Debug, 1 => DeriveTrait::Clone, 2 => DeriveTrait::Copy, 3 => DeriveTrait::PartialEq, 4 => DeriveTrait::Eq,
        5 => DeriveTrait::PartialOrd, 6 => DeriveTrait::Ord, 7 => DeriveTrait::FromStr, 8 => DeriveTrait::AsRef, 9 => DeriveTrait::From,
        10 => DeriveTrait::TryFrom, 11 => DeriveTrait::Into, 12 => DeriveTrait::Hash, 13 => DeriveTrait::Borrow, 14 => DeriveTrait::Display,
        15 => DeriveTrait::Default, 16 => DeriveTrait::Deref, 17 => DeriveTrait::IntoIterator, 18 => DeriveTrait::SerdeSerialize,
        19 => DeriveTrait::SerdeDeserialize, 20 => DeriveTrait::SchemarsJsonSchema, _ => DeriveTrait::ArbitraryArbitrary,
    }
}
const N_TRAITS: u8 = 22;
const T_COPY: u8 = 2; const T_EQ: u8 = 4; const T_ORD: u8 = 6; const T_FROM: u8 = 9; const T_TRYFROM: u8 = 10; const T_HASH: u8 = 12;
const T_INTOITER: u8 = 17; const T_JSONSCHEMA: u8 = 20;

// ------------------------------------------------------------------ per-family trait admissibility tables
// reference (README "Derivable traits" + property C08): a trait is refused iff ...
fn ref_string_refuses(t: u8, has_validation: bool) -> bool { t == T_COPY || t == T_INTOITER || (t == T_FROM && has_validation) }
fn ref_integer_refuses(t: u8, has_validation: bool) -> bool { t == T_INTOITER || (t == T_FROM && has_validation) }
fn ref_float_refuses(t: u8, has_validation: bool, has_finite: bool) -> bool {
    t == T_HASH || t == T_INTOITER || (t == T_FROM && has_validation) || ((t == T_EQ || t == T_ORD) && !has_finite)
}
fn ref_any_refuses(t: u8) -> bool { t == T_JSONSCHEMA }

#[kani::proof]
#[kani::stub(syn::Error::new, reject)]
pub fn c08_string_trait_table() {
    let t: u8 = kani::any(); kani::assume(t < N_TRAITS);
    let hv: bool = kani::any();
    unsafe { EXPECT_REJECT = ref_string_refuses(t, hv); }
    kani::cover!(unsafe { EXPECT_REJECT });
    let r = crate::string::validate::verif_to_string_derive_trait(nth_trait(t), hv, Span::call_site());
    kani::cover!(true, "accepted");
    assert!(!unsafe { EXPECT_REJECT }, "the macro ACCEPTS a derive the reference predicate refuses (String family)");
    assert!(r.is_ok());
    core::mem::forget(r);
}

#[kani::proof]
#[kani::stub(syn::Error::new, reject)]
pub fn c08_integer_trait_table() {
    let t: u8 = kani::any(); kani::assume(t < N_TRAITS);
    let hv: bool = kani::any();
    unsafe { EXPECT_REJECT = ref_integer_refuses(t, hv); }
    kani::cover!(unsafe { EXPECT_REJECT });
    let r = crate::integer::validate::verif_to_integer_derive_trait(nth_trait(t), hv, Span::call_site());
    kani::cover!(true, "accepted");
    assert!(!unsafe { EXPECT_REJECT }, "the macro ACCEPTS a derive the reference predicate refuses (integer family)");
    assert!(r.is_ok());
    core::mem::forget(r);
}

#[kani::proof]
#[kani::stub(syn::Error::new, reject)]
pub fn c08_float_trait_table() {
    let t: u8 = kani::any(); kani::assume(t < N_TRAITS);
    let hv: bool = kani::any(); let hn: bool = kani::any();
    kani::assume(!hn || hv); // a `finite` validator is a validator
    unsafe { EXPECT_REJECT = ref_float_refuses(t, hv, hn); }
    kani::cover!(unsafe { EXPECT_REJECT } && t == T_EQ);
    kani::cover!(unsafe { EXPECT_REJECT } && t == T_ORD && hv);
    let r = crate::float::validate::verif_to_float_derive_trait(nth_trait(t), hv, hn, Span::call_site());
    kani::cover!(t == T_EQ, "Eq accepted");
    assert!(!unsafe { EXPECT_REJECT }, "the macro ACCEPTS a derive the reference predicate refuses (float family)");
    assert!(r.is_ok());
    core::mem::forget(r);
}

#[kani::proof]
#[kani::stub(syn::Error::new, reject)]
#[kani::stub(alloc::fmt::format, no_format)]
pub fn c08_any_trait_table() {
    let t: u8 = kani::any(); kani::assume(t < N_TRAITS);
    let hv: bool = kani::any();
    // one cell is deliberately unconstrained: `From` with validation passes this layer and is refused later by rustc
    // (the expansion calls a `Self::new` that does not exist)
    unsafe { EXPECT_REJECT = ref_any_refuses(t); }
    kani::cover!(unsafe { EXPECT_REJECT });
    let r = crate::any::validate::verif_to_any_derive_trait(nth_trait(t), hv, Span::call_site());
    kani::cover!(true, "accepted");
    assert!(!unsafe { EXPECT_REJECT }, "the macro ACCEPTS a derive the reference predicate refuses (other/generic family)");
    assert!(r.is_ok());
    core::mem::forget(r);
}

fn no_format(_args: core::fmt::Arguments<'_>) -> String { String::new() }

// ------------------------------------------------------------------ From xor TryFrom
#[kani::proof]
#[kani::unwind(5)]
#[kani::stub(syn::Error::new, reject)]
pub fn c08_from_xor_try_from() {
    let a: u8 = kani::any(); let b: u8 = kani::any(); let c: u8 = kani::any();
    kani::assume(a < N_TRAITS && b < N_TRAITS && c < N_TRAITS);
    let n: usize = kani::any(); kani::assume(n <= 3);
    let all = [SpannedItem::new(nth_trait(a), Span::call_site()), SpannedItem::new(nth_trait(b), Span::call_site()), SpannedItem::new(nth_trait(c), Span::call_site())];
    let has = |t: u8| (n > 0 && a == t) || (n > 1 && b == t) || (n > 2 && c == t);
    unsafe { EXPECT_REJECT = has(T_FROM) && has(T_TRYFROM); }
    kani::cover!(unsafe { EXPECT_REJECT });
    let r = validate_traits_from_xor_try_from(&all[..n]);
    kani::cover!(true, "accepted");
    assert!(!unsafe { EXPECT_REJECT }, "From together with TryFrom was accepted");
    assert!(r.is_ok());
    core::mem::forget(r);
}

// ------------------------------------------------------------------ numeric bounds (literal values)
// which of the four bound kinds are present, in which order, with which literal values
fn int_validator(kind: u8, v: i32) -> IntegerValidator<i32> {
    match kind { 0 => IntegerValidator::Greater(ValueOrExpr::Value(v)), 1 => IntegerValidator::GreaterOrEqual(ValueOrExpr::Value(v)),
                 2 => IntegerValidator::Less(ValueOrExpr::Value(v)), _ => IntegerValidator::LessOrEqual(ValueOrExpr::Value(v)) }
}
fn float_validator(kind: u8, v: f64) -> FloatValidator<f64> {
    match kind { 0 => FloatValidator::Greater(ValueOrExpr::Value(v)), 1 => FloatValidator::GreaterOrEqual(ValueOrExpr::Value(v)),
                 2 => FloatValidator::Less(ValueOrExpr::Value(v)), 3 => FloatValidator::LessOrEqual(ValueOrExpr::Value(v)), _ => FloatValidator::Finite }
}

/// reference: two literal bound validators (kinds k0,k1 in 0..4; 4 = a non-bound validator) contradict each other iff
/// both bound the same side, or lower > upper, or lower >= upper when both are exclusive (greater + less).
/// NB: `greater = a, less_or_equal = a` and `greater_or_equal = a, less = a` (empty but not "excluding each other"
/// by the macro's documented rule `lower > upper`) are left unconstrained: see DESIGN C08.
macro_rules! bounds_reference { ($k0:expr, $v0:expr, $k1:expr, $v1:expr) => {{
    let (k0, v0, k1, v1) = ($k0, $v0, $k1, $v1);
    let is_lower = |k: u8| k == 0 || k == 1; let is_upper = |k: u8| k == 2 || k == 3;
    if k0 > 3 || k1 > 3 { Some(false) }
    else if (is_lower(k0) && is_lower(k1)) || (is_upper(k0) && is_upper(k1)) { if k0 == k1 { None } else { Some(true) } }
    else { let (lk, lv, uk, uv) = if is_lower(k0) { (k0, v0, k1, v1) } else { (k1, v1, k0, v0) };
           if lv > uv { Some(true) } else if lv == uv { if lk == 0 && uk == 2 { Some(true) } else if lk == 1 && uk == 3 { Some(false) } else { None } } else { Some(false) } }
}} }

// one harness per (kind, kind) pair: the validator KINDS are concrete, the literal VALUES symbolic (with symbolic kinds the two
// harnesses took > 300 s each: every enum/iterator path of `find_bound_variant!` is merged)
macro_rules! int_bounds_case { ($name:ident, $k0:expr, $k1:expr, $cov:expr) => {
    #[kani::proof]
    #[kani::unwind(4)]
    #[kani::stub(syn::Error::new, reject)]
    pub fn $name() {
        let (k0, k1): (u8, u8) = ($k0, $k1);
        let (v0, v1): (i32, i32) = (kani::any(), kani::any());
        let verdict: Option<bool> = bounds_reference!(k0, v0, k1, v1);
        kani::assume(verdict.is_some());   // same-kind duplicates are validate_duplicates' business; equal mixed bounds unconstrained
        unsafe { EXPECT_REJECT = verdict.unwrap(); }
        let items = ManuallyDrop::new([SpannedItem::new(int_validator(k0, v0), Span::call_site()), SpannedItem::new(int_validator(k1, v1), Span::call_site())]);
        kani::cover!($cov != 2 || unsafe { EXPECT_REJECT }, "a rejected configuration exists (mixed pairs)");
        kani::cover!($cov == 1 || !unsafe { EXPECT_REJECT }, "an accepted configuration exists (unless the pair is always refused)");
        let r = validate_numeric_bounds(&items[..]);
        assert!(!unsafe { EXPECT_REJECT }, "literal bounds that exclude each other were accepted (integer)");
        assert!(r.is_ok());
        core::mem::forget(r);
    }
} }
int_bounds_case!(c08_integer_bounds_gt_ge, 0, 1, 1); int_bounds_case!(c08_integer_bounds_gt_lt, 0, 2, 2); int_bounds_case!(c08_integer_bounds_gt_le, 0, 3, 2);
int_bounds_case!(c08_integer_bounds_ge_gt, 1, 0, 1); int_bounds_case!(c08_integer_bounds_ge_lt, 1, 2, 2); int_bounds_case!(c08_integer_bounds_ge_le, 1, 3, 2);
int_bounds_case!(c08_integer_bounds_lt_gt, 2, 0, 2); int_bounds_case!(c08_integer_bounds_lt_ge, 2, 1, 2); int_bounds_case!(c08_integer_bounds_lt_le, 2, 3, 1);
int_bounds_case!(c08_integer_bounds_le_gt, 3, 0, 2); int_bounds_case!(c08_integer_bounds_le_ge, 3, 1, 2); int_bounds_case!(c08_integer_bounds_le_lt, 3, 2, 1);

macro_rules! float_bounds_case { ($name:ident, $k0:expr, $k1:expr, $cov:expr) => {
    #[kani::proof]
    #[kani::unwind(4)]
    #[kani::stub(syn::Error::new, reject)]
    pub fn $name() {
        let (k0, k1): (u8, u8) = ($k0, $k1);
        let (v0, v1): (f64, f64) = (kani::any(), kani::any());
        kani::assume(!v0.is_nan() && !v1.is_nan());
        let verdict: Option<bool> = bounds_reference!(k0, v0, k1, v1);
        kani::assume(verdict.is_some());
        unsafe { EXPECT_REJECT = verdict.unwrap(); }
        let items = ManuallyDrop::new([SpannedItem::new(float_validator(k0, v0), Span::call_site()), SpannedItem::new(float_validator(k1, v1), Span::call_site())]);
        kani::cover!($cov != 2 || unsafe { EXPECT_REJECT }, "a rejected configuration exists (mixed pairs)");
        kani::cover!($cov == 1 || !unsafe { EXPECT_REJECT }, "an accepted configuration exists (unless the pair is always refused)");
        let r = validate_numeric_bounds(&items[..]);
        assert!(!unsafe { EXPECT_REJECT }, "literal bounds that exclude each other were accepted (float)");
        assert!(r.is_ok());
        core::mem::forget(r);
    }
} }
float_bounds_case!(c08_float_bounds_gt_ge, 0, 1, 1); float_bounds_case!(c08_float_bounds_gt_lt, 0, 2, 2); float_bounds_case!(c08_float_bounds_gt_le, 0, 3, 2);
float_bounds_case!(c08_float_bounds_ge_lt, 1, 2, 2); float_bounds_case!(c08_float_bounds_ge_le, 1, 3, 2); float_bounds_case!(c08_float_bounds_lt_le, 2, 3, 1);
float_bounds_case!(c08_float_bounds_lt_gt, 2, 0, 2); float_bounds_case!(c08_float_bounds_le_ge, 3, 1, 2); float_bounds_case!(c08_float_bounds_fin_lt, 4, 2, 0);
float_bounds_case!(c08_float_bounds_gt_fin, 0, 4, 0);

// ------------------------------------------------------------------ duplicates
// concrete kind triples (adjacent, non-adjacent and no duplicates), symbolic values
macro_rules! dup_case { ($name:ident, $k0:expr, $k1:expr, $k2:expr) => {
    #[kani::proof]
    #[kani::unwind(5)]
    #[kani::stub(syn::Error::new, reject)]
    #[kani::stub(alloc::fmt::format, no_format)]
    pub fn $name() {
        let (k0, k1, k2): (u8, u8, u8) = ($k0, $k1, $k2);
        unsafe { EXPECT_REJECT = k0 == k1 || k0 == k2 || k1 == k2; }
        let items = ManuallyDrop::new([SpannedItem::new(float_validator(k0, kani::any()), Span::call_site()), SpannedItem::new(float_validator(k1, kani::any()), Span::call_site()),
                                       SpannedItem::new(float_validator(k2, kani::any()), Span::call_site())]);
        kani::cover!(true, "reached");
        let r = validate_duplicates(&items[..], |_kind| String::new());
        assert!(!unsafe { EXPECT_REJECT }, "two validators of the same kind were accepted");
        assert!(r.is_ok());
        core::mem::forget(r);
    }
} }
dup_case!(c08_duplicates_adjacent_front, 0, 0, 2); dup_case!(c08_duplicates_adjacent_back, 1, 3, 3); dup_case!(c08_duplicates_non_adjacent, 2, 4, 2);
dup_case!(c08_duplicates_non_adjacent_fin, 4, 1, 4); dup_case!(c08_duplicates_none, 0, 2, 4); dup_case!(c08_duplicates_none2, 3, 1, 4);

// ------------------------------------------------------------------ string: len_char_min vs len_char_max, lowercase + uppercase
fn string_validator(kind: u8, v: usize) -> StringValidator {
    match kind { 0 => StringValidator::LenCharMin(ValueOrExpr::Value(v)), 1 => StringValidator::LenCharMax(ValueOrExpr::Value(v)), _ => StringValidator::NotEmpty }
}
fn string_sanitizer(kind: u8) -> StringSanitizer { match kind { 0 => StringSanitizer::Trim, 1 => StringSanitizer::Lowercase, _ => StringSanitizer::Uppercase } }

#[kani::proof]
#[kani::unwind(5)]
#[kani::stub(syn::Error::new, reject)]
#[kani::stub(alloc::fmt::format, no_format)]
pub fn c08_string_len_bounds() {
    let (k0, k1): (u8, u8) = (kani::any(), kani::any()); kani::assume(k0 < 3 && k1 < 3);
    let (v0, v1): (usize, usize) = (kani::any(), kani::any());
    let dup = k0 == k1;
    let contradict = (k0 == 0 && k1 == 1 && v0 > v1) || (k0 == 1 && k1 == 0 && v1 > v0);
    unsafe { EXPECT_REJECT = dup || contradict; }
    kani::cover!(contradict); kani::cover!(dup);
    let mut items: Vec<crate::string::models::SpannedStringValidator> = Vec::with_capacity(2);
    items.push(SpannedItem::new(string_validator(k0, v0), Span::call_site()));
    items.push(SpannedItem::new(string_validator(k1, v1), Span::call_site()));
    let r = crate::string::validate::verif_validate_validators(items);
    kani::cover!(true, "accepted");
    assert!(!unsafe { EXPECT_REJECT }, "len_char_min > len_char_max (or a duplicate) was accepted");
    assert!(r.is_ok());
    core::mem::forget(r);
}

#[kani::proof]
#[kani::unwind(5)]
#[kani::stub(syn::Error::new, reject)]
#[kani::stub(alloc::fmt::format, no_format)]
pub fn c08_string_sanitizers() {
    // two sanitizers (a concrete list length keeps the Vec's length concrete for the symbolic executor)
    let (k0, k1): (u8, u8) = (kani::any(), kani::any()); kani::assume(k0 < 3 && k1 < 3);
    let dup = k0 == k1;
    let both_cases = (k0 == 1 && k1 == 2) || (k0 == 2 && k1 == 1);
    unsafe { EXPECT_REJECT = dup || both_cases; }
    kani::cover!(both_cases); kani::cover!(dup);
    let mut items: Vec<crate::string::models::SpannedStringSanitizer> = Vec::with_capacity(2);
    items.push(SpannedItem::new(string_sanitizer(k0), Span::call_site()));
    items.push(SpannedItem::new(string_sanitizer(k1), Span::call_site()));
    let r = crate::string::validate::verif_validate_sanitizers(items);
    kani::cover!(true, "accepted");
    assert!(!unsafe { EXPECT_REJECT }, "lowercase together with uppercase (or a duplicate sanitizer) was accepted");
    assert!(r.is_ok());
    core::mem::forget(r);
}

// ------------------------------------------------------------------ sabotage twin
#[kani::proof]
#[kani::stub(syn::Error::new, reject)]
pub fn c08_float_trait_table_must_fail() {
    let t: u8 = kani::any(); kani::assume(t < N_TRAITS);
    let hv: bool = kani::any(); let hn: bool = kani::any();
    kani::assume(!hn || hv);
    // wrong reference: claims Eq/Ord need only *some* validation
    unsafe { EXPECT_REJECT = t == T_HASH || t == T_INTOITER || (t == T_FROM && hv) || ((t == T_EQ || t == T_ORD) && !hv); }
    let r = crate::float::validate::verif_to_float_derive_trait(nth_trait(t), hv, hn, Span::call_site());
    assert!(!unsafe { EXPECT_REJECT });
    core::mem::forget(r);
}
