"""Common driver for all property checks (Engine G and Engine M).

A property module (props/cNN.py) exposes  generate(tier, seed) -> Plan.
The driver copies the harness crate to /verif/work/<ID>-<tier>/crate, writes the generated source,
runs `cargo kani` (real macro rebuilt from /repo's working tree), parses Kani's JSON export,
classifies every harness against its expected outcome, replays unexpected failures natively
(kani concrete playback = ordinary `cargo test` of the same harness body with the concrete values),
and writes /verif/evidence/<ID>.json.

Exit codes: 0 held on everything explored; 1 VIOLATION (replayed natively); 2 inconclusive / machinery problem.
"""
import json, os, re, shutil, subprocess, sys, time, hashlib

VERIF = os.path.dirname(os.path.dirname(os.path.abspath(__file__)))
REPO = os.environ.get("VERIF_REPO", "/repo")
WORK = os.environ.get("VERIF_WORK", os.path.join(VERIF, "work"))
EVIDENCE_DIR = os.environ.get("VERIF_EVIDENCE_DIR", os.path.join(VERIF, "evidence"))
JOBS = int(os.environ.get("VERIF_JOBS", "16"))


class H:
    """One harness. kind: main | must_fail | finding | best_effort"""

    def __init__(self, name, kind="main", sample=None, finding=None, group=None, expect_panic=False, unreachable=(), finding_check=None):
        self.name = name
        self.kind = kind
        self.sample = sample or {}
        self.finding = finding  # key into known_findings.json
        # the failed check(s) by which the known finding manifests (substring of the check description); a finding twin that fails on
        # ANY OTHER check shows a different violation and is handled like a main harness (replayed, reported)
        self.finding_check = finding_check
        self.group = group
        self.expect_panic = expect_panic  # harness carries #[kani::should_panic]: nutype code must panic on every path
        self.unreachable = list(unreachable)  # cover!/assert messages that must be UNSATISFIABLE/UNREACHABLE


class Plan:
    def __init__(self, pid, engine="gen_proofs"):
        self.pid = pid
        self.engine = engine  # crate dir under /verif/harness
        self.source = ""  # text of src/gen_<id>.rs
        self.harnesses = []
        self.features = []
        self.kani_flags = []
        self.assumptions = []
        self.bounds = {}
        self.pre_steps = []  # callables(ctx) -> list of (ok, label, detail)
        self.extra_files = {}  # relative path in crate -> text
        self.timeout_s = None
        self.notes = []
        self.extra_evidence = {}

    def add(self, h):
        self.harnesses.append(h)
        return h


def sh(cmd, cwd=None, env=None, timeout=None, log=None):
    e = dict(os.environ)
    e.update({"CARGO_NET_OFFLINE": "true", "CARGO_TERM_COLOR": "never"})
    if env:
        e.update(env)
    t0 = time.time()
    try:
        p = subprocess.run(cmd, cwd=cwd, env=e, stdout=subprocess.PIPE, stderr=subprocess.STDOUT,
                           timeout=timeout, shell=isinstance(cmd, str))
        out = p.stdout.decode("utf-8", "replace")
        rc = p.returncode
    except subprocess.TimeoutExpired as ex:
        out = (ex.stdout or b"").decode("utf-8", "replace") + "\n[driver] TIMEOUT after %ss\n" % timeout
        rc = 124
    if log:
        with open(log, "a") as f:
            f.write("$ %s\n" % (cmd if isinstance(cmd, str) else " ".join(cmd)))
            f.write(out)
            f.write("\n[rc=%s, %.1fs]\n" % (rc, time.time() - t0))
    return rc, out


def load_known():
    p = os.path.join(VERIF, "known_findings.json")
    if not os.path.exists(p):
        return {}
    d = json.load(open(p))
    return {f["key"]: f for f in d.get("findings", [])}


def prepare_crate(plan, wdir):
    src = os.path.join(VERIF, "harness", plan.engine)
    crate = os.path.join(wdir, "crate")
    if os.path.exists(crate):
        shutil.rmtree(crate)
    shutil.copytree(src, crate, ignore=shutil.ignore_patterns("target", "Cargo.lock", "gen_*.rs"))
    shutil.copy(os.path.join(REPO, "Cargo.lock"), os.path.join(crate, "Cargo.lock"))
    if REPO != "/repo":
        # scratch worktree runs (seeded-change sweeps): point the path dependency / #[path] includes at that tree
        for rel in ("Cargo.toml", os.path.join("src", "lib.rs")):
            fp = os.path.join(crate, rel)
            txt = open(fp).read().replace('"/repo/', '"%s/' % REPO)
            open(fp, "w").write(txt)
    with open(os.path.join(crate, "src", "gen_%s.rs" % plan.pid.lower()), "w") as f:
        f.write(plan.source)
    for rel, text in plan.extra_files.items():
        p = os.path.join(crate, rel)
        os.makedirs(os.path.dirname(p), exist_ok=True)
        with open(p, "w") as f:
            f.write(text)
    return crate


def kani_cmd(plan, wdir, extra):
    feats = ",".join([plan.pid.lower()] + plan.features)
    cmd = ["cargo", "kani", "--target-dir", os.path.join(wdir, "target"), "--features", feats,
           "--output-format", "terse", "-Z", "unstable-options"]
    cmd += plan.kani_flags + extra
    return cmd


MEM_GB_DEFAULT = {"quick": 12, "thorough": 32}   # thorough: kani-driver itself holds every check of thousands of harnesses for the JSON export


THOROUGH_CAP = int(os.environ.get("VERIF_THOROUGH_CAP", "1200"))


def select_budget(plan, tier, seed):
    """thorough tier: the generated catalogue of some properties has many thousand harnesses (hours of wall time). At most
    THOROUGH_CAP `main` harnesses are decided per run - an even stride through the catalogue (which is ordered declaration-major),
    rotated by VERIF_SEED; every sabotage twin, finding twin and best-effort harness always runs. The harnesses left out are
    compiled but not decided in this run and are reported as `not-run` (count in the evidence). None = run everything."""
    if tier != "thorough":
        return None
    mains = [h for h in plan.harnesses if h.kind == "main"]
    if len(mains) <= THOROUGH_CAP:
        return None
    n = len(mains)
    picked = {mains[((i * n) // THOROUGH_CAP + seed) % n].name for i in range(THOROUGH_CAP)}
    return picked | {h.name for h in plan.harnesses if h.kind != "main"}


def run_kani(plan, wdir, crate, tier, selected=None):
    out_json = os.path.join(wdir, "out.json")
    if os.path.exists(out_json):
        os.remove(out_json)
    tmo = plan.timeout_s or (300 if tier == "quick" else 1200)
    extra = ["-j", str(JOBS), "--export-json", out_json, "--harness-timeout", str(tmo)]
    if selected is not None:
        for nme in sorted(selected):
            extra += ["--harness", nme]   # substring match: a name that is a prefix of others selects those too (they are classified normally)
    cmd = kani_cmd(plan, wdir, extra)
    log = os.path.join(wdir, "kani.log")
    # ulimit on address space so a blown-up CBMC instance dies instead of taking the machine down
    mem_kb = int(os.environ.get("VERIF_MEM_GB", MEM_GB_DEFAULT.get(tier, 12))) * 1024 * 1024
    script = os.path.join(wdir, "run_kani.sh")   # a file: thousands of --harness flags exceed the size limit of one `sh -c` argument
    with open(script, "w") as f:
        f.write("ulimit -v %d\nexec %s\n" % (mem_kb, " ".join("'%s'" % c for c in cmd)))
    rc, out = sh(["sh", script], cwd=crate, log=log, timeout=tmo * 40 + 3600)
    res = None
    if os.path.exists(out_json):
        try:
            res = json.load(open(out_json))
        except Exception as ex:  # truncated export
            res = None
    return rc, out, res


def index_results(res):
    by = {}
    if not res:
        return by
    for r in res.get("verification_results", {}).get("results", []):
        by[r["harness_id"]] = {"status": r.get("status"), "duration_ms": r.get("duration_ms", 0), "checks": r.get("checks", [])}
    for pd in res.get("property_details", []):
        by.setdefault(pd["harness_id"], {})["props"] = pd.get("property_details", {})
    for c in res.get("cbmc", []):
        by.setdefault(c["harness_id"], {})["stats"] = c.get("cbmc_stats", {})
    for e in res.get("error_details", []):
        by.setdefault(e["harness_id"], {})["err"] = e
    return by


def short_fn(name):
    """`<gen_c09::i8_lt::__nutype_N__::N as arbitrary::Arbitrary<'_>>::arbitrary` -> `<N as arbitrary::Arbitrary>::arbitrary`"""
    name = re.sub(r"gen_c\d+::(?:\w+::)*?(?=__nutype_|\w+$|\w+[ >,])", "", name)
    name = re.sub(r"__nutype_\w+?__::", "", name)
    name = re.sub(r"<'_>|<'\w+>", "", name)
    return name[:140]


def failed_checks(r):
    out = []
    for c in r.get("checks", []):
        if c.get("status") in ("Failure", "FAILURE", "Failed"):
            out.append({"description": c.get("description"), "function": c.get("function"),
                        "location": c.get("location"), "category": c.get("category")})
    return out


def parse_playback_print(out):
    """blocks printed by --concrete-playback=print -> list of (check_kind, check_text, vals_text)"""
    blocks = []
    for m in re.finditer(r"/// Test generated for harness `([^`]+)`.*?/// Check for `(\w+)`: (.*?)\n\s*#\[test\]\s*fn (\w+)\(\) \{\s*let concrete_vals: Vec<Vec<u8>> = vec!\[(.*?)\n?\s*\];", out, re.S):
        blocks.append({"harness": m.group(1), "kind": m.group(2), "check": m.group(3).strip(), "vals": m.group(5)})
    return blocks


def native_playback(plan, wdir, crate, fq, vals_text, log, tag):
    """Append an ordinary #[test] that runs harness `fq` on the concrete values and run it natively (dev and release)."""
    tname = "vp_playback_" + re.sub(r"\W", "_", tag)
    test_src = ("\n#[cfg(test)]\nmod %s_mod {\n    #[test]\n    fn %s() {\n        let concrete_vals: Vec<Vec<u8>> = vec![%s\n        ];\n"
                "        kani::concrete_playback_run(concrete_vals, crate::%s);\n    }\n}\n" % (tname, tname, vals_text, fq))
    lib = os.path.join(crate, "src", "lib.rs")
    txt = open(lib).read()
    if ("fn %s()" % tname) not in txt:
        with open(lib, "a") as f:
            f.write(test_src)
    info = {"playback_test": tname, "playback_test_source": test_src, "harness_path": fq}
    verdicts = {}
    for prof, extra in (("dev", []),):  # `cargo kani playback` has no --release; dev is the profile Kani models
        rc2, out2 = sh(["cargo", "kani", "playback", "-Z", "concrete-playback", "--features",
                        ",".join([plan.pid.lower()] + plan.features)] + extra + ["--", tname, "--test-threads=1"],
                       cwd=crate, env={"CARGO_TARGET_DIR": os.path.join(wdir, "target-pb")}, log=log, timeout=3600)
        ran = re.search(r"test result: (\w+)\. (\d+) passed; (\d+) failed", out2)
        if not ran or (int(ran.group(2)) + int(ran.group(3))) == 0:
            verdicts[prof] = "not-run"
            info["native_%s_tail" % prof] = out2[-2500:]
            continue
        failed = int(ran.group(3)) > 0
        verdicts[prof] = "reproduced" if failed else "not-reproduced"
        pm = re.findall(r"panicked at [^\n]*\n[^\n]*", out2)
        info["native_%s" % prof] = {"verdict": verdicts[prof], "panic": pm[:2]}
    info["verdicts"] = verdicts
    return verdicts, info


def replay(plan, wdir, crate, h, r, log, fq=None):
    """Re-run the failing harness with concrete playback and execute it natively. Returns (verdict, info)."""
    fq = fq or h.name
    cmd = kani_cmd(plan, wdir, ["--harness", fq, "--exact", "-Z", "concrete-playback", "--concrete-playback=print"])
    rc, out = sh(cmd, cwd=crate, log=log, timeout=3600)
    allb = parse_playback_print(out)
    if h.unreachable:
        # the violation is "a point that must be unreachable was reached": replay the witness of that cover;
        # reproduced natively = the harness runs to that point, i.e. the test does NOT panic before it.
        mb = [b for b in allb if any(m in b["check"] for m in h.unreachable)]
        for n, b in enumerate(mb[:2]):
            verdicts, info = native_playback(plan, wdir, crate, fq, b["vals"], log, "%s_m%d" % (h.name, n))
            info["failed_check"] = "reached: " + b["check"]
            info["concrete_values"] = [v.strip() for v in re.findall(r"//\s*(.*)", b["vals"])]
            info["note"] = "marker harness: native run passing (no panic before the marker) is the reproduction"
            if verdicts.get("dev") == "not-reproduced":   # test passed natively = marker reached
                return "reproduced", info
            if verdicts.get("dev") == "reproduced":
                return "not-reproduced", info
    blocks = [b for b in allb if b["kind"] != "cover"]
    if not blocks:
        # Kani de-duplicates playback tests by their concrete values: the failing input may have been printed
        # only as the witness of a cover with the same values -> try the cover witnesses
        blocks = [b for b in allb if b["kind"] == "cover"]
    if not blocks:
        return "no-playback", {"reason": "Kani produced no concrete playback test for a failed check", "tail": out[-1500:]}
    last = None
    for n, b in enumerate(blocks[:3]):
        verdicts, info = native_playback(plan, wdir, crate, fq, b["vals"], log, "%s_%d" % (h.name, n))
        info["failed_check"] = b["check"]
        info["concrete_values"] = [v.strip() for v in re.findall(r"//\s*(.*)", b["vals"])]
        last = info
        if verdicts.get("dev") == "reproduced":
            return "reproduced", info
    if last["verdicts"].get("dev") == "not-reproduced":
        return "not-reproduced", last
    return "no-playback", last


def isolate_retry(plan, wdir, h, log):
    """Re-decide one harness in a crate that contains only that harness (same declaration module, same stubs).
    Used when a counterexample does not reproduce natively: CBMC's verdict on heap `free` preconditions of zero-capacity
    buffers was observed to depend on which sibling harnesses are compiled into the same goto program."""
    gen = os.path.join(wdir, "crate", "src", "gen_%s.rs" % plan.pid.lower())
    src = open(gen).read()
    m = re.search(r"    #\[kani::proof\]\n(?:    #\[[^\n]*\n)*    pub fn %s\(\) \{.*?\n    \}\n" % re.escape(h.name), src, re.S)
    if not m:
        return None
    mi = src.rfind("\npub mod ", 0, m.start())
    if mi < 0:
        return None
    mod = src[mi + 1:]
    head_end = mod.find("    #[kani::proof]")
    head = mod[:head_end]
    prelude = src[:src.find("\npub mod ")] if src.find("\npub mod ") > 0 else ""
    iso = os.path.join(wdir, "iso")
    if os.path.exists(os.path.join(iso, "crate")):
        shutil.rmtree(os.path.join(iso, "crate"))
    os.makedirs(iso, exist_ok=True)
    shutil.copytree(os.path.join(wdir, "crate"), os.path.join(iso, "crate"))
    open(os.path.join(iso, "crate", "src", "gen_%s.rs" % plan.pid.lower()), "w").write(prelude + "\n" + head + m.group(0) + "}\n")
    out_json = os.path.join(iso, "out.json")
    if os.path.exists(out_json):
        os.remove(out_json)
    cmd = kani_cmd(plan, wdir, ["--export-json", out_json, "--harness-timeout", "300"])
    rc, out = sh(cmd, cwd=os.path.join(iso, "crate"), log=log, timeout=3600)
    try:
        res = json.load(open(out_json))
    except Exception:
        return None
    by = index_results(res)
    for k, r in by.items():
        if k.endswith("::" + h.name):
            return r
    return None


_SRC_CACHE = {}


def handles_empty_text(crate, plan, name):
    """does the generated body of harness `name` carry the generator's EMPTY-TEXT marker (vlib/strkit.py)?"""
    path = os.path.join(crate, "src", "gen_%s.rs" % plan.pid.lower())
    if path not in _SRC_CACHE:
        try:
            _SRC_CACHE[path] = open(path).read()
        except OSError:
            _SRC_CACHE[path] = ""
    src = _SRC_CACHE[path]
    i = src.find("pub fn %s()" % name)
    if i < 0:
        return False
    j = src.find("#[kani::proof]", i)
    body = src[i:j if j > 0 else len(src)]
    return "EMPTY-TEXT" in body


def heap_model_signature(fc):
    for c in fc:
        d = (c.get("description") or "")
        loc = json.dumps(c.get("location") or {})
        if "rust_dealloc" in d or "free argument" in d or "kani_lib.c" in loc:
            return True
    return False


def batch_replay(plan, wdir, crate, pending, log):
    """concrete playback for many failing harnesses: Kani re-runs (parallel) print the concrete values, then ONE native
    `cargo kani playback` build runs all generated tests. returns {harness: (verdict, info)}"""
    # ONE Kani invocation for all failing harnesses (each separate `--harness` selection would re-run the compiler on the crate)
    # (`--concrete-playback` is incompatible with `--jobs`: the selected harnesses run one after another)
    cmd = kani_cmd(plan, wdir, ["--harness-timeout", str(3 * (plan.timeout_s or 300))])   # trace generation makes the re-run slower than the original
    for (h, r, key, row, fc) in pending:
        cmd += ["--harness", key or h.name]
    cmd += ["--exact", "-Z", "concrete-playback", "--concrete-playback=print"]
    rc, out = sh(cmd, cwd=crate, log=None, timeout=7200)
    allb = parse_playback_print(out)
    blocks = {}
    for (h, r, key, row, fc) in pending:
        mine = [b for b in allb if b["harness"] == (key or h.name) or b["harness"].endswith("::" + h.name)]
        if h.unreachable:
            sel = [b for b in mine if any(m in b["check"] for m in h.unreachable)][:2]
        else:
            sel = [b for b in mine if b["kind"] != "cover"][:3] or [b for b in mine if b["kind"] == "cover"][:3]
        blocks[h.name] = (sel, out[-600:] if not mine else "")
    lib = os.path.join(crate, "src", "lib.rs")
    tests = {}
    add = []
    for (h, r, key, row, fc) in pending:
        sel, tail = blocks.get(h.name, ([], ""))
        for n, b in enumerate(sel):
            tname = "vp_playback_%s_%d" % (re.sub(r"\W", "_", h.name), n)
            tests.setdefault(h.name, []).append((tname, b))
            add.append("\n#[cfg(test)]\nmod %s_mod {\n    #[test]\n    fn %s() {\n        let concrete_vals: Vec<Vec<u8>> = vec![%s\n        ];\n"
                       "        kani::concrete_playback_run(concrete_vals, crate::%s);\n    }\n}\n" % (tname, tname, b["vals"], key or h.name))
    res = {}
    outcome = {}
    if add:
        with open(lib, "a") as f:
            f.write("".join(add))
        rc2, out2 = sh(["cargo", "kani", "playback", "-Z", "concrete-playback", "--features", ",".join([plan.pid.lower()] + plan.features), "--", "vp_playback_", "--test-threads=1"],
                       cwd=crate, env={"CARGO_TARGET_DIR": os.path.join(wdir, "target-pb")}, log=log, timeout=7200)
        for m in re.finditer(r"test (?:\w+::)*(vp_playback_\w+) \.\.\. (ok|FAILED)", out2):
            outcome[m.group(1)] = m.group(2)
        panics = re.findall(r"---- (?:\w+::)*(vp_playback_\w+) stdout ----\n(.*?)(?=\n----|\nfailures:)", out2, re.S)
        pan = {a: b.strip()[:400] for a, b in panics}
    for (h, r, key, row, fc) in pending:
        ts = tests.get(h.name, [])
        if not ts and h.unreachable:
            # the marker was not reached in any counterexample: whatever failed, it is not "the point that must be unreachable was reached"
            res[h.name] = ("not-reproduced", {"reason": "marker harness failed, but no counterexample reaches the marker", "tail": blocks.get(h.name, ([], ""))[1]})
            continue
        if not ts:
            res[h.name] = ("no-playback", {"reason": "Kani produced no concrete playback test for a failed check", "tail": blocks.get(h.name, ([], ""))[1]})
            continue
        ran = [(t, b, outcome.get(t)) for t, b in ts]
        info = {"harness_path": key, "playback_source": "".join(a for a in add if any(("fn %s()" % t) in a for t, _ in ts)), "tests": [{"test": t, "check": b["check"][:200], "native": o, "concrete_values": [v.strip() for v in re.findall(r"//\s*(.*)", b["vals"])],
                                                "panic": pan.get(t)} for t, b, o in ran]}
        if all(o is None for _, _, o in ran):
            res[h.name] = ("no-playback", dict(info, reason="native playback did not run"))
        elif h.unreachable:
            # marker harness: reaching the marker natively (test passes) is the reproduction
            res[h.name] = ("reproduced" if any(o == "ok" for _, _, o in ran) else "not-reproduced", info)
        else:
            res[h.name] = ("reproduced" if any(o == "FAILED" for _, _, o in ran) else "not-reproduced", info)
    return res


def classify_fail_kind(fc):
    """unwinding assertion failures are a bound problem, not a property violation"""
    kinds = set()
    for c in fc:
        d = (c.get("description") or "")
        if "unwinding assertion" in d:
            kinds.add("unwind")
        elif c.get("category") in ("unsupported_construct",) or "unsupported" in d.lower():
            kinds.add("unsupported")
        else:
            kinds.add("real")
    return kinds


def purge_harness_artifacts(wdir, engine):
    """Kani writes ~40 MB of goto binaries PER HARNESS under target/kani/<triple>/debug/build/<crate>/<hash>/out and never removes those of
    earlier builds: thousands of harnesses are tens of GB. They are of no use once the run (and its replays) is over; compiled
    dependencies stay, so the next build is still incremental."""
    import glob
    for d in glob.glob(os.path.join(wdir, "target", "kani", "*", "debug", "build", engine + "*")) + \
             glob.glob(os.path.join(wdir, "target", "kani", "*", "debug", "build", engine.replace("_", "-") + "*")):
        shutil.rmtree(d, ignore_errors=True)


def run_property(plan, tier, seed, t_start):
    try:
        return _run_property(plan, tier, seed, t_start)
    finally:
        if not os.environ.get("VERIF_KEEP_TARGET"):
            purge_harness_artifacts(os.path.join(WORK, "%s-%s" % (plan.pid, tier)), plan.engine)


def _run_property(plan, tier, seed, t_start):
    pid = plan.pid
    wdir = os.path.join(WORK, "%s-%s" % (pid, tier))
    os.makedirs(wdir, exist_ok=True)
    purge_harness_artifacts(wdir, plan.engine)
    for f in ("kani.log", "replay.log"):
        p = os.path.join(wdir, f)
        if os.path.exists(p):
            os.remove(p)
    known = load_known()
    crate = prepare_crate(plan, wdir)
    ctx = {"wdir": wdir, "crate": crate, "tier": tier, "seed": seed, "plan": plan}

    inconclusive = []
    violations = []
    known_lines = []
    pre_results = []
    for step in plan.pre_steps:
        for (status, label, detail) in step(ctx):
            pre_results.append({"status": status, "label": label, "detail": detail})
            if status == "violation":
                violations.append({"harness": label, "replay": detail.get("replay_path"), "what": detail.get("what")})
            elif status == "known":
                known_lines.append((detail.get("key"), detail.get("what")))
            elif status == "inconclusive":
                inconclusive.append("pre-step %s: %s" % (label, detail.get("what")))

    if any(r["status"] == "inconclusive" for r in pre_results):
        for i in inconclusive[:10]:
            print("INCONCLUSIVE property=%s %s" % (pid, i))
        write_evidence(plan, tier, seed, t_start, [], {}, inconclusive, violations, known_lines, pre_results)
        return 2

    selected = select_budget(plan, tier, seed)
    if os.environ.get("VERIF_ONLY"):   # development aid (never set by registered commands): decide only the harnesses matching this regex
        selected = {h.name for h in plan.harnesses if re.search(os.environ["VERIF_ONLY"], h.name)}
    if selected is not None:
        plan.bounds = dict(plan.bounds or {})
        plan.bounds["thorough_budget"] = ("%d of the %d generated harnesses are decided in this run (even stride through the catalogue, rotated by "
                                          "VERIF_SEED=%d; VERIF_THOROUGH_CAP=%d main harnesses + every twin); the others are outside this run's claim"
                                          % (len(selected), len(plan.harnesses), seed, THOROUGH_CAP))
    rc, out, res = run_kani(plan, wdir, crate, tier, selected)
    by = index_results(res)
    if res is None or not by:
        errs = re.findall(r"^error(?:\[E\d+\])?:.*(?:\n.*){0,6}", out, re.M)
        msg = "\n".join(errs[:5]) if errs else out[-3000:]
        print("INCONCLUSIVE BUILD-FAILED property=%s (harness crate or /repo did not compile under Kani)" % pid)
        print(msg)
        write_evidence(plan, tier, seed, t_start, [], {}, inconclusive + ["build failed"], [], [], pre_results)
        return 2

    rows = []
    fns = set()
    total_checks = 0
    solver_s = 0.0
    symex_s = 0.0
    replay_dir = os.path.join(wdir, "replay")
    if os.path.isdir(replay_dir) and not plan.pre_steps:
        shutil.rmtree(replay_dir)
    os.makedirs(replay_dir, exist_ok=True)
    n_replayed = 0
    pending = []
    for h in plan.harnesses:
        # Kani pretty names are module paths; our names are unique function names -> match by suffix
        key = None
        for k in by:
            if k == h.name or k.endswith("::" + h.name):
                key = k
                break
        row = {"harness": h.name, "kind": h.kind, "sample": h.sample}
        rows.append(row)
        if (key is None or "status" not in by[key]) and selected is not None and h.name not in selected:
            row["outcome"] = "not-run"
            continue
        if key is None or "status" not in by[key]:
            row["outcome"] = "missing"
            if h.kind != "best_effort":
                inconclusive.append("harness %s produced no result (timeout/OOM/crash)" % h.name)
            else:
                row["outcome"] = "undecided"
            continue
        r = by[key]
        st = r["status"]
        props = r.get("props") or {}
        stats = r.get("stats") or {}
        row["status"] = st
        row["checks"] = props.get("total_properties", len(r.get("checks", [])))
        row["covers_satisfied"] = props.get("satisfied", 0)
        row["covers_unsat"] = props.get("unsatisfiable", 0)
        row["time_s"] = round(r.get("duration_ms", 0) / 1000.0, 3)
        row["solver_s"] = round((stats.get("runtime_solver_s") or 0.0) + (stats.get("runtime_decision_procedure_s") or 0.0), 4)
        total_checks += row["checks"] or 0
        solver_s += row["solver_s"]
        symex_s += (stats.get("runtime_symex_s") or 0.0)
        for c in r.get("checks", []):
            f = c.get("function") or ""
            if "__nutype_" in f or f.startswith("nutype") or "arbitrary::" in f or "serde::" in f:
                fns.add(short_fn(f))
        fc = failed_checks(r)
        success = (st == "Success")
        undet = props.get("undetermined", 0) or 0
        if h.kind == "must_fail":
            if success:
                row["outcome"] = "sabotage-not-detected"
                inconclusive.append("sabotage twin %s passed: machinery cannot see failures" % h.name)
            else:
                row["outcome"] = "failed-as-required"
            continue
        if h.kind == "finding":
            ent = known.get(h.finding)
            if ent and ent.get("status") == "known":
                other = [c for c in fc if h.finding_check and h.finding_check not in (c.get("description") or "")]
                if success:
                    row["outcome"] = "known-finding-no-longer-reproduces"
                    continue
                if not other:
                    row["outcome"] = "known-finding"
                    known_lines.append((h.finding, ent.get("what")))
                    continue
                # fails differently from the recorded finding: a new violation candidate (falls through to the main handling)
                row["differs_from_known_finding"] = [(c.get("description") or "")[:160] for c in other[:3]]
                fc = other
                known_lines.append((h.finding, ent.get("what")))
            # status fixed (or not listed): treated like a main harness below
        marker_hit = []
        n_marker_unsat = 0
        if h.unreachable:
            for c in r.get("checks", []):
                d = c.get("description") or ""
                if any(m in d for m in h.unreachable):
                    if c.get("status") in ("Satisfied", "SATISFIED", "Failure", "FAILURE"):
                        marker_hit.append(d)
                    elif c.get("category") == "cover" or "cover" in (c.get("property_class") or ""):
                        n_marker_unsat += 1
            row["covers_unsat"] = max(0, (row["covers_unsat"] or 0) - n_marker_unsat)
        if marker_hit and not fc:
            fc = [{"description": "reached a point that must be unreachable: " + marker_hit[0], "function": None, "location": None, "category": "marker"}]
            success = False
        if success:
            if row["covers_unsat"]:
                row["outcome"] = "vacuous"
                if h.kind != "best_effort":
                    inconclusive.append("harness %s: %d cover(s) unsatisfiable (vacuous)" % (h.name, row["covers_unsat"]))
            else:
                row["outcome"] = "held"
            continue
        # failed / timeout / error
        kinds = classify_fail_kind(fc)
        row["failed_checks"] = fc[:6]
        if not fc:
            row["outcome"] = "undecided" if h.kind == "best_effort" else "error"
            if h.kind != "best_effort":
                inconclusive.append("harness %s: status %s without failed checks (timeout/OOM/solver error)" % (h.name, st))
            continue
        if kinds == {"unwind"}:
            row["outcome"] = "unwind-bound-too-small"
            inconclusive.append("harness %s: unwinding assertion failed (bound too small)" % h.name)
            continue
        if kinds == {"unsupported"}:
            row["outcome"] = "unsupported-construct"
            inconclusive.append("harness %s: reaches a construct Kani does not support" % h.name)
            continue
        # genuine candidate: replayed natively below (batched: one native build for all of them)
        pending.append((h, r, key, row, fc))

    MAXR = int(os.environ.get("VERIF_MAX_REPLAY", "40" if tier == "quick" else "400"))
    # failures that carry a property assertion of the harness first; pure heap-model signatures last
    pending.sort(key=lambda it: (1 if heap_model_signature(it[4]) else 0, 0 if any((c.get("category") == "assertion" and "kani_lib.c" not in json.dumps(c.get("location") or {})) for c in it[4]) else 1))
    for (h, r, key, row, fc) in pending[MAXR:]:
        row["outcome"] = "failed-not-replayed"
        inconclusive.append("harness %s failed; replay budget (%d) exhausted" % (h.name, MAXR))
    verdicts = batch_replay(plan, wdir, crate, pending[:MAXR], os.path.join(wdir, "replay.log")) if pending else {}
    for (h, r, key, row, fc) in pending[:MAXR]:
        verdict, info = verdicts.get(h.name, ("no-playback", {"reason": "no result"}))
        rp = os.path.join(replay_dir, h.name + ".json")
        json.dump({"property_id": pid, "harness": h.name, "sample": h.sample, "failed_checks": fc[:10],
                   "replay": info, "repo_head": git_head(), "tier": tier}, open(rp, "w"), indent=1)
        row["replay"] = rp
        row["replay_verdict"] = verdict
        if verdict == "reproduced":
            row["outcome"] = "violation"
            violations.append({"harness": h.name, "replay": rp, "what": fc[0]["description"]})
        elif verdict == "not-reproduced":
            if heap_model_signature(fc):
                # CBMC's heap model reports spurious free()/dereference failures when an EMPTY String (dangling pointer)
                # is dropped; which harnesses are hit flips with unrelated edits (DESIGN §11). Not reproducible natively:
                # the harness is reported undecided - it contributes nothing to the claim and raises no alarm.
                row["outcome"] = "undecided"
                row["note"] = "CBMC heap-model artefact on an empty String (free()/rust_dealloc precondition); counterexample does not reproduce natively"
            elif handles_empty_text(crate, plan, h.name):
                # same artefact, different symptom: with an EMPTY String (dangling, zero-capacity buffer) in play CBMC's heap model can
                # also return garbage for its length/character count, so a harness assertion fails on a path the real code cannot take.
                # Only harnesses whose generator marked an empty input / intermediate / stored text (EMPTY-TEXT) are excused, and only
                # when the counterexample does not reproduce natively.
                row["outcome"] = "undecided"
                row["note"] = "CBMC heap-model artefact on an empty String (harness handles an empty text); counterexample does not reproduce natively"
            else:
                row["outcome"] = "non-reproducing"
                inconclusive.append("harness %s: counterexample did NOT reproduce natively (encoding or stub wrong)" % h.name)
        else:
            row["outcome"] = "failed-no-playback"
            inconclusive.append("harness %s failed but no concrete playback could be produced" % h.name)

    stats = {"total_checks": total_checks, "solver_s": round(solver_s, 3), "symex_s": round(symex_s, 3), "functions": sorted(fns)}
    write_evidence(plan, tier, seed, t_start, rows, stats, inconclusive, violations, known_lines, pre_results)

    seen = set()
    for key, what in known_lines:
        if key in seen:
            continue
        seen.add(key)
        print("KNOWN-FINDING: property=%s %s — %s" % (pid, key, what))
    held = sum(1 for r in rows if r.get("outcome") == "held")
    n_notrun = sum(1 for r in rows if r.get("outcome") == "not-run")
    if n_notrun:
        print("[%s %s] %s: %d generated harnesses not decided in this run" % (pid, tier, "VERIF_ONLY" if os.environ.get("VERIF_ONLY") else
              "thorough budget (VERIF_THOROUGH_CAP=%d, VERIF_SEED rotates the selection)" % THOROUGH_CAP, n_notrun))
    print("[%s %s] harnesses=%d held=%d sabotage_ok=%d known=%d undecided=%d violations=%d inconclusive=%d checks=%d solver=%.1fs wall=%.0fs" % (
        pid, tier, len(rows) - n_notrun, held, sum(1 for r in rows if r.get("outcome") == "failed-as-required"),
        len(seen), sum(1 for r in rows if r.get("outcome") == "undecided"), len(violations), len(inconclusive),
        total_checks, solver_s, time.time() - t_start))
    if violations:
        for v in violations:
            print("VIOLATION property=%s replay=%s" % (pid, v["replay"]))
            print("  harness=%s: %s" % (v["harness"], " ".join(str(v["what"]).split())[:160]))
        return 1
    if inconclusive:
        for i in inconclusive[:20]:
            print("INCONCLUSIVE property=%s %s" % (pid, i))
        return 2
    return 0


def git_head():
    try:
        return subprocess.check_output(["git", "-C", REPO, "rev-parse", "HEAD"]).decode().strip()
    except Exception:
        return None


def write_evidence(plan, tier, seed, t_start, rows, stats, inconclusive, violations, known_lines, pre_results):
    held = [r for r in rows if r.get("outcome") == "held"]
    ev = {
        "property_id": plan.pid,
        "tier": tier,
        "seed": seed,
        "level": "model_checking",
        "coverage": {
            "evaluations": max(len([r for r in rows if "status" in r]), 0),
            "distinct_nontrivial": len(held),
            "rule": "one evaluation = one Kani proof harness (one concrete nutype declaration x one assertion set, symbolic inputs/bounds) "
                    "decided by CBMC+cadical; non-trivial = verification SUCCESSFUL with unwinding assertions on and every kani::cover! witness satisfied "
                    "(sabotage twins, known-finding twins and undecided best-effort harnesses are not counted)",
            "samples": [dict(harness=r["harness"], kind=r["kind"], outcome=r.get("outcome"), checks=r.get("checks"),
                             time_s=r.get("time_s"), **({"case": r["sample"]} if r.get("sample") else {})) for r in rows[:400]],
            "harnesses_total": len(rows),
            "harnesses_generated_not_run": len([r for r in rows if r.get("outcome") == "not-run"]),
            "queries_discharged": stats.get("total_checks", 0),
            "solver_time_s": stats.get("solver_s", 0),
            "symex_time_s": stats.get("symex_s", 0),
            "functions_encoded": stats.get("functions", [])[:300],
            "bounds": plan.bounds,
            "sabotage_twins_failed_as_required": len([r for r in rows if r.get("outcome") == "failed-as-required"]),
            "undecided": [r["harness"] for r in rows if r.get("outcome") == "undecided"],
            "known_findings_reported": sorted(set(k for k, _ in known_lines)),
            "inconclusive": inconclusive[:50],
            "pre_steps": pre_results[:200],
            "engine": plan.engine,
            "repo_head": git_head(),
            "exhaustive": False,
        },
        "assumptions": plan.assumptions,
        "wall_s": round(time.time() - t_start, 1),
        "violations": len(violations),
    }
    ev["coverage"].update(plan.extra_evidence)
    os.makedirs(EVIDENCE_DIR, exist_ok=True)
    with open(os.path.join(EVIDENCE_DIR, plan.pid + ".json"), "w") as f:
        json.dump(ev, f, indent=1)


def replay_file(mod, pid, path):
    """./check <ID> --replay <replay.json>: re-run the recorded concrete values natively against /repo's current tree.
    exit 1 = the violation reproduces, 0 = it does not (any more), 2 = could not be run."""
    d = json.load(open(path))
    if "replay" not in d or "tests" not in d.get("replay", {}):
        print("replay file carries no concrete playback tests (e.g. a message-level finding): %s" % json.dumps(d)[:400])
        return 2
    tier = d.get("tier", "quick")
    seed = int(os.environ.get("VERIF_SEED", "0") or 0)
    plan = mod.generate(tier, seed)
    wdir = os.path.join(WORK, "%s-replay" % pid)
    os.makedirs(wdir, exist_ok=True)
    crate = prepare_crate(plan, wdir)
    ctx = {"wdir": wdir, "crate": crate, "tier": tier, "seed": seed, "plan": plan}
    for step in plan.pre_steps:
        step(ctx)
    fq = d["replay"]["harness_path"]
    marker = any("MARKER" in (t.get("check") or "") for t in d["replay"]["tests"])
    add = []
    names = []
    for n, t in enumerate(d["replay"]["tests"]):
        vals = ", ".join("vec![%s]" % v for v in [])  # values are re-read from the stored test source below
    src = d["replay"].get("playback_source")
    lib = os.path.join(crate, "src", "lib.rs")
    if not src:
        print("replay file has no stored test source")
        return 2
    open(lib, "a").write(src)
    rc, out = sh(["cargo", "kani", "playback", "-Z", "concrete-playback", "--features", ",".join([plan.pid.lower()] + plan.features), "--", "vp_playback_", "--test-threads=1"],
                 cwd=crate, env={"CARGO_TARGET_DIR": os.path.join(wdir, "target-pb")}, timeout=7200)
    res = re.findall(r"test (?:\w+::)*(vp_playback_\w+) \.\.\. (ok|FAILED)", out)
    print("\n".join("%s %s" % r for r in res) or out[-1500:])
    if not res:
        return 2
    reproduced = any(o == "ok" for _, o in res) if marker else any(o == "FAILED" for _, o in res)
    print("REPRODUCED" if reproduced else "not reproduced on the current tree")
    return 1 if reproduced else 0
