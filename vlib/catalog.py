"""Declaration catalogue helpers: build #[nutype(..)] declarations and, independently, their reference predicates."""
import itertools

INT_TYPES = ["i8", "u8", "i16", "u16", "i32", "u32", "i64", "u64", "i128", "u128", "isize", "usize"]
FLOAT_TYPES = ["f32", "f64"]
BITS = {"i8": 8, "u8": 8, "i16": 16, "u16": 16, "i32": 32, "u32": 32, "i64": 64, "u64": 64, "i128": 128, "u128": 128,
        "isize": 64, "usize": 64, "f32": 32, "f64": 64}
UBITS = {"f32": "u32", "f64": "u64"}

VARIANT = {"gt": "GreaterViolated", "ge": "GreaterOrEqualViolated", "lt": "LessViolated", "le": "LessOrEqualViolated",
           "pred": "PredicateViolated", "finite": "FiniteViolated"}
KEYWORD = {"gt": "greater", "ge": "greater_or_equal", "lt": "less", "le": "less_or_equal", "pred": "predicate", "finite": "finite"}


def is_float(ty):
    return ty in FLOAT_TYPES


def is_signed(ty):
    return ty[0] == "i"


def int_min(ty):
    b = BITS[ty]
    return -(1 << (b - 1)) if is_signed(ty) else 0


def int_max(ty):
    b = BITS[ty]
    return (1 << (b - 1)) - 1 if is_signed(ty) else (1 << b) - 1


class NumDecl:
    """A numeric (integer or float) newtype declaration.

    validators: ordered list of keys in {gt, ge, lt, le, pred, finite} (written order)
    san: None | 'fn' | 'closure' | 'closure_mut' | 'closure_typed'    (sanitize(with = ..))
    pred_form: 'fn' | 'closure' | 'closure_typed'
    bounds: 'expr' -> bounds are written `lo()` / `hi()` (symbolic statics);  dict(lo=<lit>, hi=<lit>) -> literals;
            'const' -> bounds are written as const items LO_C / HI_C (values in const_vals)
    san_op: 'xor' (bijective) | 'or' (idempotent)
    """

    def __init__(self, ty, validators, san=None, pred_form="fn", bounds="expr", derive=(), const_fn=False,
                 default=None, name="N", san_op="xor", const_vals=None, modname=None):
        self.ty = ty
        self.validators = list(validators)
        self.san = san
        self.pred_form = pred_form
        self.bounds = bounds
        self.derive = list(derive)
        self.const_fn = const_fn
        self.default = default
        self.name = name
        self.san_op = san_op
        self.const_vals = const_vals or {}
        self._mod = modname

    # ---- naming
    def modname(self):
        if self._mod:
            return self._mod
        parts = [self.ty] + (self.validators or ["nov"])
        if self.san:
            parts.append({"fn": "s", "closure": "sc", "closure_mut": "scm", "closure_typed": "sct"}[self.san])
        if "pred" in self.validators and self.pred_form != "fn":
            parts.append({"closure": "pc", "closure_typed": "pct"}[self.pred_form])
        if isinstance(self.bounds, dict):
            parts.append("lit")
        if self.bounds == "const":
            parts.append("cst")
        if self.const_fn:
            parts.append("constfn")
        return "_".join(parts)

    def has_validation(self):
        return bool(self.validators)

    def lower(self):
        for k in self.validators:
            if k in ("gt", "ge"):
                return k
        return None

    def upper(self):
        for k in self.validators:
            if k in ("lt", "le"):
                return k
        return None

    # ---- text of bound expressions as written in the attribute
    def _b(self, which):
        if self.bounds == "expr":
            return "%s()" % which
        if self.bounds == "const":
            return {"lo": "LO_C", "hi": "HI_C"}[which]
        return self.bounds[which]

    def attr(self):
        ty = self.ty
        items = []
        if self.san:
            if self.san == "fn":
                w = "san"
            elif self.san == "closure":
                w = "|x| san(x)"
            elif self.san == "closure_mut":
                w = "|mut x| { x = san(x); x }"
            else:
                w = "|x: %s| san(x)" % ty
            items.append("sanitize(with = %s)" % w)
        if self.validators:
            vs = []
            for k in self.validators:
                if k in ("gt", "ge"):
                    vs.append("%s = %s" % (KEYWORD[k], self._b("lo")))
                elif k in ("lt", "le"):
                    vs.append("%s = %s" % (KEYWORD[k], self._b("hi")))
                elif k == "finite":
                    vs.append("finite")
                elif k == "pred":
                    if self.pred_form == "fn":
                        p = "pred"
                    elif self.pred_form == "closure":
                        p = "|x| pred(x)"
                    else:
                        p = "|x: &%s| pred(x)" % ty
                    vs.append("predicate = %s" % p)
            items.append("validate(%s)" % ", ".join(vs))
        if self.derive:
            items.append("derive(%s)" % ", ".join(self.derive))
        if self.default is not None:
            items.append("default = %s" % self.default)
        if self.const_fn:
            items.append("const_fn")
        return "#[nutype(%s)]\npub struct %s(%s);" % (", ".join(items), self.name, ty)

    # ---- prelude: statics and user functions the declaration refers to
    def prelude(self):
        ty = self.ty
        out = []
        zero = "0.0" if is_float(ty) else "0"
        bty = UBITS.get(ty, ty)
        if self.bounds == "expr":
            out.append("static mut LO: %s = %s; static mut HI: %s = %s;" % (ty, zero, ty, zero))
            out.append("fn lo() -> %s { unsafe { LO } }  fn hi() -> %s { unsafe { HI } }" % (ty, ty))
        elif self.bounds == "const":
            out.append("pub const LO_C: %s = %s; pub const HI_C: %s = %s;" % (ty, self.const_vals["lo"], ty, self.const_vals["hi"]))
        cq = "const " if self.const_fn else ""
        if self.const_fn:
            # a const fn cannot read a mutable static: the user functions are fixed members of the family
            out.append("pub const MASK_C: %s = 0x5; pub const K_C: %s = 0x3;" % (bty, bty))
            mask, k = "MASK_C", "K_C"
        else:
            out.append("static mut MASK: %s = 0; static mut K: %s = 0;" % (bty, bty))
            mask, k = "unsafe { MASK }", "unsafe { K }"
        op = "^" if self.san_op == "xor" else "|"
        if is_float(ty):
            out.append("%sfn pred(x: &%s) -> bool { (x.to_bits() & %s) != 0 }" % (cq, ty, mask))
            out.append("%sfn san(x: %s) -> %s { %s::from_bits(x.to_bits() %s %s) }" % (cq, ty, ty, ty, op, k))
        else:
            out.append("%sfn pred(x: &%s) -> bool { (*x & %s) != 0 }" % (cq, ty, mask))
            out.append("%sfn san(x: %s) -> %s { x %s %s }" % (cq, ty, ty, op, k))
        return "\n    ".join(out)

    # ---- harness setup: make statics symbolic; defines l, h
    def setup(self):
        ty = self.ty
        out = []
        if self.bounds == "expr" and getattr(self, "fixed_bounds", None):
            out.append("let l: %s = %s; let h: %s = %s;  // concrete bound values for this harness" % (ty, self.fixed_bounds[0], ty, self.fixed_bounds[1]))
            out.append("unsafe { LO = l; HI = h; }")
        elif self.bounds == "expr":
            out.append("let l: %s = kani::any(); let h: %s = kani::any();" % (ty, ty))
            if is_float(ty):
                out.append("kani::assume(!l.is_nan() && !h.is_nan());")
            out.append("unsafe { LO = l; HI = h; }")
        elif self.bounds == "const":
            out.append("let l: %s = LO_C; let h: %s = HI_C;" % (ty, ty))
        else:
            def ref(v):
                # the reference side writes the denoted value as an ordinary typed Rust expression
                import re as _re
                if is_float(ty) and _re.fullmatch(r"-?[0-9_]+", v):
                    return v + ".0"
                return v
            out.append("let l: %s = %s; let h: %s = %s;" % (ty, ref(self.bounds.get("lo_ref", self.bounds.get("lo", "0"))), ty, ref(self.bounds.get("hi_ref", self.bounds.get("hi", "0")))))
        if not self.const_fn:
            bty = UBITS.get(ty, ty)
            out.append("unsafe { MASK = kani::any::<%s>(); K = kani::any::<%s>(); }" % (bty, bty))
        return "\n        ".join(out)

    def san_ref(self, var):
        return "san(%s)" % var if self.san else var

    def violated(self, key, s):
        return {"gt": "%s <= l" % s, "ge": "%s < l" % s, "lt": "%s >= h" % s, "le": "%s > h" % s,
                "pred": "!pred(&%s)" % s, "finite": "!%s.is_finite()" % s}[key]

    def valid_expr(self, s):
        if not self.validators:
            return "true"
        return " && ".join("!(%s)" % self.violated(k, s) for k in self.validators)

    def eq(self, a, b):
        if is_float(self.ty):
            return "%s.to_bits() == %s.to_bits()" % (a, b)
        return "%s == %s" % (a, b)

    def describe(self):
        return {"type": self.ty, "validators": self.validators, "sanitizer": self.san, "bounds": self.bounds if isinstance(self.bounds, (str, dict)) else str(self.bounds),
                "const_fn": self.const_fn, "attr": self.attr().split("\n")[0]}


def bound_combos(float_=False):
    lows = [None, "gt", "ge"]
    ups = [None, "lt", "le"]
    for lo, up in itertools.product(lows, ups):
        v = [k for k in (lo, up) if k]
        yield v


def int_literal_extremes(ty):
    """(lo, hi) literal pairs at the edges of the type (as the user would write them)"""
    mn, mx = int_min(ty), int_max(ty)
    vals = [mn, mn + 1, 0, 1, mx - 1, mx]
    if is_signed(ty):
        vals.append(-1)
    return sorted(set(vals))


def fmt_int(v):
    return str(v)


def indent(text, n=4):
    pad = " " * n
    return "\n".join(pad + line if line.strip() else line for line in text.split("\n"))
