"""String newtypes: declaration catalogue, input skeletons and harness generation shared by C01/C03/C04/C07/C10/C11/C13.

Inputs are *skeletons*: concrete whitespace / underscore / non-ASCII characters with symbolic ASCII fillers in between
(`X`, `Y`: any printable non-whitespace ASCII byte other than `_`).  Python simulates the declared sanitizer chain on the
skeleton to obtain (i) the plan each `trim` call must follow (support::strmodel::TRIM_PLAN), (ii) the expected stored bytes
as Rust expressions over the filler bytes, (iii) the character count.  Under `-Z stubbing` trim/to_lowercase/to_uppercase are
the lean models of support/strmodel.rs (exact on these inputs, validated natively before every run); natively the real std runs.
"""
import itertools

WS = {" ", "\t", "\n", "\r", "\x0b", "\x0c", "\u00a0", "\u2003", "\u0085", "\u3000"}
FILL = ("X", "Y", "Z")


class Cell:
    """one character of a template: concrete char, or a filler with a case transform"""
    __slots__ = ("ch", "fill", "case")

    def __init__(self, ch=None, fill=None, case=None):
        self.ch, self.fill, self.case = ch, fill, case

    def is_ws(self):
        return self.ch is not None and self.ch in WS

    def nbytes(self):
        return 1 if self.fill else len(self.ch.encode("utf-8"))

    def rust_bytes(self):
        """list of Rust u8 expressions"""
        if self.fill:
            v = "b%s" % self.fill.lower()
            if self.case == "lower":
                return ["(if %s >= b'A' && %s <= b'Z' { %s + 32 } else { %s })" % (v, v, v, v)]
            if self.case == "upper":
                return ["(if %s >= b'a' && %s <= b'z' { %s - 32 } else { %s })" % (v, v, v, v)]
            return [v]
        return ["0x%02x" % b for b in self.ch.encode("utf-8")]

    def lowered(self):
        if self.fill:
            return Cell(fill=self.fill, case="lower")  # lower(upper(x)) == lower(x) for ASCII
        return Cell(ch=self.ch.lower())

    def uppered(self):
        if self.fill:
            return Cell(fill=self.fill, case="upper")
        return Cell(ch=self.ch.upper())

    def key(self):
        return (self.ch, self.fill, self.case)


def parse_skeleton(s):
    return [Cell(fill=c) if c in FILL else Cell(ch=c) for c in s]


def byte_len(cells):
    return sum(c.nbytes() for c in cells)


def sim_trim(cells):
    """returns (new cells, (start_byte, end_byte) plan)"""
    i, j = 0, len(cells)
    while i < j and cells[i].is_ws():
        i += 1
    while j > i and cells[j - 1].is_ws():
        j -= 1
    st = byte_len(cells[:i])
    en = st + byte_len(cells[i:j])
    return cells[i:j], (st, en)


def sim_mark(cells):
    return [Cell(ch=" ") if (c.ch == "_") else c for c in cells]


def sim_mark2(cells):
    """custom sanitizer `mark2`: every pair `__` becomes the (2-byte, cased, non-ASCII) character U+00C9"""
    out, i = [], 0
    while i < len(cells):
        if cells[i].ch == "_" and i + 1 < len(cells) and cells[i + 1].ch == "_":
            out.append(Cell(ch="\u00c9"))
            i += 2
        else:
            out.append(cells[i])
            i += 1
    return out


def simulate(sanitizers, cells):
    plans = []
    for s in sanitizers:
        if s == "trim":
            cells, p = sim_trim(cells)
            plans.append(p)
        elif s == "lowercase":
            cells = [c.lowered() for c in cells]
        elif s == "uppercase":
            cells = [c.uppered() for c in cells]
        elif s == "with":
            cells = sim_mark(cells)
        elif s == "with2":
            cells = sim_mark2(cells)
    return cells, plans


SKELETONS_ALL = ["", " ", "X", " X", "X ", " XY ", "X Y", "\tX\n", "_X_", " _X", "_ X", "\u00e9X", " \u00c9 ", "X\u00a0", "\u2003 X ", "XYZ", "  ",
                 "x_Y ", "\u00a0 X", "Ab_", "\u00df", "\u0085X", "__X", " __ ", "\u01c5X", " \u01c5"]
SKELETONS_QUICK = ["", " X", " XY ", "_X_", "\u00a0 X", "\u00c9X ", "__X", "\u01c5X"]

VARIANT = {"not_empty": "NotEmptyViolated", "min": "LenCharMinViolated", "max": "LenCharMaxViolated", "pred": "PredicateViolated", "regex": "RegexViolated"}


class StrDecl:
    def __init__(self, sanitizers=(), validators=(), derive=(), name="S", literal=None, default=None, with_form="fn", pred_form="fn", modname=None):
        self.sanitizers = list(sanitizers)
        self.validators = list(validators)
        self.derive = list(derive)
        self.name = name
        self.literal = literal  # dict(min=.., max=..) -> literal bounds instead of minl()/maxl()
        self.default = default
        self.with_form = with_form
        self.pred_form = pred_form
        self._mod = modname

    def modname(self):
        if self._mod:
            return self._mod
        p = ["s"] + [{"trim": "t", "lowercase": "lo", "uppercase": "up", "with": "w", "with2": "w2"}[s] for s in self.sanitizers]
        p += ["v"] + [{"not_empty": "ne", "min": "mn", "max": "mx", "pred": "p", "regex": "rx"}[v] for v in self.validators]
        if self.literal:
            p.append("lit")
        if self.with_form != "fn" or self.pred_form != "fn":
            p.append("cl")
        return "_".join(p)

    def has_validation(self):
        return bool(self.validators)

    def attr(self):
        items = []
        if self.sanitizers:
            ss = []
            for s in self.sanitizers:
                if s == "with":
                    ss.append("with = " + {"fn": "mark", "closure": "|s| mark(s)", "closure_typed": "|s: String| mark(s)"}[self.with_form])
                elif s == "with2":
                    ss.append("with = mark2")
                else:
                    ss.append(s)
            items.append("sanitize(%s)" % ", ".join(ss))
        if self.validators:
            vs = []
            for v in self.validators:
                if v == "not_empty":
                    vs.append("not_empty")
                elif v == "min":
                    vs.append("len_char_min = %s" % (self.literal["min"] if self.literal else "minl()"))
                elif v == "max":
                    vs.append("len_char_max = %s" % (self.literal["max"] if self.literal else "maxl()"))
                elif v == "pred":
                    vs.append("predicate = " + {"fn": "pred", "closure": "|s| pred(s)", "closure_typed": "|s: &str| pred(s)"}[self.pred_form])
                elif v == "regex":
                    vs.append("regex = RX")
            items.append("validate(%s)" % ", ".join(vs))
        if self.derive:
            items.append("derive(%s)" % ", ".join(self.derive))
        if self.default is not None:
            items.append("default = %s" % self.default)
        return "#[nutype(%s)]\npub struct %s(String);" % (", ".join(items), self.name)

    def prelude(self):
        """only the statics / user functions this declaration refers to (writing, from a harness, a `static mut` that no
        reachable code reads made CBMC's memory model go wrong: spurious free()/dereference failures, see DESIGN §11)"""
        out = []
        if "min" in self.validators and not self.literal:
            out.append("static mut MINL: usize = 0; fn minl() -> usize { unsafe { MINL } }")
        if "max" in self.validators and not self.literal:
            out.append("static mut MAXL: usize = 0; fn maxl() -> usize { unsafe { MAXL } }")
        if "pred" in self.validators:
            out.append("static mut PLEN: usize = 0;\n    /// custom predicate: member of a symbolic family over the byte length of the text\n    fn pred(s: &str) -> bool { s.len() != unsafe { PLEN } }")
        if "regex" in self.validators:
            out.append("static mut RXPAR: usize = 0;\n    /// regex object given by path: the macro only needs `.is_match(&str)`\n"
                       "    pub struct Rx { pub tag: u8 } impl Rx { pub fn is_match(&self, s: &str) -> bool { s.len() % 2 == unsafe { RXPAR } % 2 } }\n    pub static RX: Rx = Rx { tag: 1 };")
        if "with2" in self.sanitizers:
            out.append("/// custom sanitizer that INTRODUCES a cased non-ASCII character: every `__` becomes U+00C9 (same byte length)\n"
                       "    fn mark2(s: String) -> String { let mut v = s.into_bytes(); let mut i = 0; while i + 1 < v.len() { if v[i] == b'_' && v[i + 1] == b'_' { v[i] = 0xC3; v[i + 1] = 0x89; i += 1; } i += 1; } unsafe { String::from_utf8_unchecked(v) } }")
        if "with" in self.sanitizers:
            out.append("/// custom sanitizer: in place, length preserving: every `_` becomes a space\n"
                       "    fn mark(s: String) -> String { let mut v = s.into_bytes(); let mut i = 0; while i < v.len() { if v[i] == b'_' { v[i] = b' '; } i += 1; } unsafe { String::from_utf8_unchecked(v) } }")
        return "\n    ".join(out)

    def setup(self):
        st = []
        if "min" in self.validators:
            st.append("let mn: usize = %s;" % (self.literal["min"] if self.literal else "kani::any()"))
            if not self.literal:
                st.append("unsafe { MINL = mn; }")
        if "max" in self.validators:
            st.append("let mx: usize = %s;" % (self.literal["max"] if self.literal else "kani::any()"))
            if not self.literal:
                st.append("unsafe { MAXL = mx; }")
        if "pred" in self.validators:
            st.append("unsafe { PLEN = kani::any(); }")
        if "regex" in self.validators:
            st.append("unsafe { RXPAR = kani::any(); }")
        return " ".join(st)

    def violated(self, v, cells):
        n = len(cells)
        nb = byte_len(cells)
        return {"not_empty": "true" if n == 0 else "false", "min": "%d < mn" % n, "max": "%d > mx" % n,
                "pred": "%d == unsafe { PLEN }" % nb, "regex": "%d %% 2 != unsafe { RXPAR } %% 2" % nb}[v]

    def valid_expr(self, cells):
        if not self.validators:
            return "true"
        return " && ".join("!(%s)" % self.violated(v, cells) for v in self.validators)

    def first_violated(self, cells):
        chain = "None"
        for i in reversed(range(len(self.validators))):
            chain = "if %s { Some(%d) } else { %s }" % (self.violated(self.validators[i], cells), i, chain)
        return chain

    def uses_upper(self):
        return "uppercase" in self.sanitizers

    def skeleton_ok(self, sk):
        """the case models are exact only where the mapping preserves length/lead byte"""
        if self.uses_upper() and any(c in sk for c in "ßÿµ"):
            return False
        return True

    def describe(self):
        return {"type": "String", "sanitizers": self.sanitizers, "validators": self.validators, "attr": self.attr().split("\n")[0]}


STUBS = ("    #[kani::stub(str::trim, crate::support::strmodel::trim_model)]\n"
         "    #[kani::stub(str::to_lowercase, crate::support::strmodel::to_lowercase_model)]\n"
         "    #[kani::stub(str::to_uppercase, crate::support::strmodel::to_uppercase_model)]\n")


def stubs_for(name):
    return STUBS.replace("crate::support::strmodel::trim_model", "trim_plan_%s" % name)


def trim_stub_fn(name, plans):
    """per-harness trim stub with the plan baked in as literals; `plans` may be extended by later plan_stmt calls"""
    arms = "".join("%d => (%dusize, %dusize), " % (i, a, b) for i, (a, b) in enumerate(plans))
    return ("    fn trim_plan_%s(s: &str) -> &str { let (st, en) = match crate::support::strmodel::next_trim_call() { %s_ => { assert!(false, \"trim called more often than the harness planned for\"); (0usize, 0usize) } }; "
            "crate::support::strmodel::trim_checked(s, st, en) }\n" % (name, arms))


def input_builder(sk, var="raw", plans=(), first_plan=0):
    """Rust statements declaring filler bytes, the raw byte array and `text: &str`; sets the trim plan"""
    cells = parse_skeleton(sk)
    fills = sorted({c.fill for c in cells if c.fill})
    st = []
    for f in fills:
        v = "b%s" % f.lower()
        st.append("let %s: u8 = kani::any(); kani::assume(%s > 0x20 && %s < 0x7f && %s != b'_');" % (v, v, v, v))
    bytes_ = []
    for c in cells:
        bytes_ += c.rust_bytes()
    if bytes_:
        st.append("let %s: [u8; %d] = [%s];" % (var, len(bytes_), ", ".join(bytes_)))
        st.append("let text: &str = unsafe { core::str::from_utf8_unchecked(&%s) };" % var)
    else:
        # no zero-length stack array: with a zero-sized object in scope CBMC reports spurious free() preconditions
        # when an empty String (dangling pointer) is dropped
        st.append("let %s: [u8; 1] = [0]; let text: &str = \"\";  // EMPTY-TEXT (empty input)" % var)
    return st, cells


def input_from_cells(cells, var="raw"):
    """like input_builder but from a (post-sanitizer) template: fillers are constrained to the image of their case transform"""
    fills = {}
    for c in cells:
        if c.fill:
            fills.setdefault(c.fill, c.case)
    st = []
    for f, case in sorted(fills.items()):
        v = "b%s" % f.lower()
        extra = {"lower": " && !(%s >= b'A' && %s <= b'Z')" % (v, v), "upper": " && !(%s >= b'a' && %s <= b'z')" % (v, v), None: ""}[case]
        st.append("let %s: u8 = kani::any(); kani::assume(%s > 0x20 && %s < 0x7f && %s != b'_'%s);" % (v, v, v, v, extra))
    plain = [Cell(fill=c.fill) if c.fill else c for c in cells]
    bytes_ = []
    for c in plain:
        bytes_ += c.rust_bytes()
    if bytes_:
        st.append("let %s: [u8; %d] = [%s];" % (var, len(bytes_), ", ".join(bytes_)))
        st.append("let text: &str = unsafe { core::str::from_utf8_unchecked(&%s) };" % var)
    else:
        st.append("let %s: [u8; 1] = [0]; let text: &str = \"\";  // EMPTY-TEXT (empty stored text re-entered)" % var)
    return st, plain


def plan_stmt(plans):
    if not plans:
        return []   # never write a static that no reachable code reads (see StrDecl.prelude)
    st = ["unsafe { crate::support::strmodel::TRIM_CALLS = 0; }"]
    for i, (a, b) in enumerate(plans):
        st.append("unsafe { crate::support::strmodel::P%dS = %d; crate::support::strmodel::P%dE = %d; }%s" % (i, a, i, b, "  // EMPTY-TEXT: this trim call yields an empty text" if a == b else ""))
    return st


def expect_bytes(cells, var="exp"):
    bs = []
    for c in cells:
        bs += c.rust_bytes()
    if not bs:
        return "let %s: [u8; 1] = [0];  // EMPTY-TEXT (empty expectation; no zero-sized object, see input_builder)" % var
    return "let %s: [u8; %d] = [%s];" % (var, len(bs), ", ".join(bs))


def eq_bytes(got, exp_var, n):
    """fieldwise comparison (slice == is a memcmp loop the unwind bound would have to cover)"""
    conds = ["%s.len() == %d" % (got, n)] + ["%s[%d] == %s[%d]" % (got, i, exp_var, i) for i in range(n)]
    return " && ".join(conds)


def skeleton_repr(sk):
    return sk.encode("unicode_escape").decode()


def decl_catalogue(tier, rng, for_prop):
    """list of StrDecl appropriate for a property"""
    D = []
    sans_orders = [[], ["trim"], ["lowercase"], ["uppercase"], ["trim", "lowercase"], ["lowercase", "trim"], ["trim", "uppercase"], ["uppercase", "trim"]]
    with_orders = [["with", "trim"], ["trim", "with"], ["with", "trim", "lowercase"], ["lowercase", "with", "trim"], ["trim", "lowercase", "with"], ["with"]]
    val_sets = [[], ["not_empty"], ["min", "max"], ["not_empty", "max"], ["max", "pred"], ["regex", "min"], ["not_empty", "min", "max", "pred", "regex"]]
    if for_prop == "C11":
        chains = sans_orders
    else:
        chains = sans_orders + with_orders
    if tier == "quick":
        combos = []
        for i, ch in enumerate(chains):
            combos.append((ch, val_sets[(i * 2 + 1) % len(val_sets)]))
            if i % 3 == 0:
                combos.append((ch, val_sets[(i + 3) % len(val_sets)]))
        combos.append((["trim", "lowercase"], []))
    else:
        combos = [(ch, vs) for ch in chains for vs in val_sets]
    seen = set()
    for ch, vs in combos:
        d = StrDecl(ch, vs)
        if d.modname() in seen:
            continue
        seen.add(d.modname())
        D.append(d)
    # literal bounds and closure spellings
    D.append(StrDecl(["trim"], ["min", "max"], literal={"min": 1, "max": 2}))
    D.append(StrDecl(["trim"], ["not_empty", "min", "max"], literal={"min": 2, "max": 3}))
    if for_prop != "C11":
        D.append(StrDecl(["with2", "lowercase"], ["max"]))
        D.append(StrDecl(["trim", "with2", "lowercase"], []))
    D.append(StrDecl(["with", "trim"], ["pred", "max"], with_form="closure", pred_form="closure"))
    D.append(StrDecl(["trim", "with"], ["pred"], with_form="closure_typed", pred_form="closure_typed"))
    return D


def skeletons_for(d, tier, rng):
    sks = SKELETONS_ALL if tier == "thorough" else SKELETONS_QUICK + rng.sample([s for s in SKELETONS_ALL if s not in SKELETONS_QUICK], 2)
    return [s for s in sks if d.skeleton_ok(s)]
