"""C04 — deserialization can never produce a value the constructor would reject (numeric + nested positions)."""
import random
from vlib.driver import Plan, H
from vlib.catalog import *
from props import strprops

USE = "use crate::support::de::*;\n    use serde::Deserialize;"


def oracle_block(d, inner_var, got_var, sabotage=False):
    """statements comparing `got: Result<N,E>` with `inner: Result<ty,E>`"""
    s = "let s = %s;" % d.san_ref("x")
    if sabotage:
        s = "let s = x;"
    if d.has_validation():
        return ("match %s {\n            Err(_) => { assert!(%s.is_err(), \"newtype deserialized although the inner value does not\"); }\n"
                "            Ok(x) => { %s let valid: bool = %s;\n                match %s { Ok(v) => { assert!(valid, \"deserialized a value the constructor rejects\"); let g = v.into_inner(); assert!(%s, \"deserialized value is not the sanitized value\"); }\n"
                "                           Err(_) => { assert!(!valid, \"deserialization failed although inner value is acceptable\"); } } }\n        }"
                % (inner_var, got_var, s, d.valid_expr("s"), got_var, d.eq("g", "s")))
    return ("match %s {\n            Err(_) => { assert!(%s.is_err()); }\n"
            "            Ok(x) => { %s match %s { Ok(v) => { let g = v.into_inner(); assert!(%s, \"deserialized value is not the sanitized value\"); } Err(_) => { assert!(false, \"deserialization failed although there are no validators\"); } } }\n        }"
            % (inner_var, got_var, s, got_var, d.eq("g", "s")))


KINDS = [("u8", "Ev::U8(kani::any())"), ("u16", "Ev::U16(kani::any())"), ("u32", "Ev::U32(kani::any())"), ("u64", "Ev::U64(kani::any())"),
         ("i8", "Ev::I8(kani::any())"), ("i16", "Ev::I16(kani::any())"), ("i32", "Ev::I32(kani::any())"), ("i64", "Ev::I64(kani::any())"),
         ("f32", "Ev::F32(kani::any())"), ("f64", "Ev::F64(kani::any())"), ("bool", "Ev::Bool(kani::any())"), ("char", "Ev::Char(kani::any())"),
         ("unit", "Ev::Unit"), ("none", "Ev::None"), ("seq", "Ev::Seq2(kani::any(), kani::any(), kani::any::<u8>() % 3)"), ("some", "Ev::SomeOf(kani::any())"),
         ("str", "Ev::Str(\"7\", StrMode::Borrowed)")]
KINDS128 = [("u128", "Ev128::U(kani::any())"), ("i128", "Ev128::I(kani::any())")]
# serde's default visit_i128/visit_u128 (used by every non-128-bit primitive visitor) FORMATS the number into the error
# message; that is serde's code, explodes under CBMC, and no supported format delivers 128-bit events to smaller targets.


def accepts(ty, kind):
    """can this event kind ever deserialize as `ty` (serde primitive visitors)?"""
    if kind in ("u8", "u16", "u32", "u64", "i8", "i16", "i32", "i64"):
        return True
    if kind in ("f32", "f64"):
        return is_float(ty)
    if kind in ("u128", "i128"):
        return ty in ("i128", "u128")
    return False


def kinds_for(ty, tier, rng):
    ks = list(KINDS) + (KINDS128 if ty in ("i128", "u128") else [])
    if tier == "quick":
        must = [k for k in ks if k[0] in ("u64", "i64", "f64", "unit", "u128", "i128")]
        rest = [k for k in ks if k not in must]
        ks = must + rng.sample(rest, 2)
    return ks


def top_harness(d, hname, kind, evexpr, sabotage=False):
    ty = d.ty
    b = [d.setup(), "let ev = %s;" % evexpr,
         "let inner = <%s as Deserialize>::deserialize(%s);" % (ty, "StubDe128 { ev }" if kind in ("u128", "i128") else "StubDe::new(ev)"),
         "unsafe { NEWTYPE_CALLS = 0; }",
         "let got = <%s as Deserialize>::deserialize(%s);" % (d.name, "StubDe128 { ev }" if kind in ("u128", "i128") else "StubDe::new(ev)")]
    if not sabotage:
        if accepts(ty, kind):
            b.append("kani::cover!(got.is_ok());")
            # (`finite` alone can only fail on a float event: an integer event always converts to a finite float)
            if d.has_validation() and not (d.validators == ["finite"] and kind not in ("f32", "f64")):
                b.append("kani::cover!(got.is_err() && inner.is_ok());")
        else:
            b.append("kani::cover!(inner.is_err());")
        b.append("assert!(unsafe { NEWTYPE_CALLS } == 1 && unsafe { LAST_NEWTYPE_NAME }.len() == 1 && unsafe { LAST_NEWTYPE_NAME }.as_bytes()[0] == b'N', \"entry is not deserialize_newtype_struct(<type name>)\");")
    b.append(oracle_block(d, "inner", "got", sabotage))
    return "    #[kani::proof]\n    #[kani::unwind(4)]\n    pub fn %s() {\n        %s\n    }\n" % (hname, "\n        ".join(b))


def alt_deserializer_harnesses(d, base):
    """other ways a deserializer may drive the visitor: (a) newtype struct presented as a one-element sequence (visit_seq);
    (b) RON-like strict options (a bare value is not an Option). Whatever the generated visitor does with them, an Ok result
    must be what the constructor returns for the delivered inner value."""
    ty = d.ty
    pk = "F64" if is_float(ty) else ("I64" if is_signed(ty) else "U64")
    out, hs = [], []
    conv = "x as %s" % ty
    def body(de):
        b = [d.setup(), "let x: %s = kani::any();" % {"F64": "f64", "I64": "i64", "U64": "u64"}[pk], "let ev = Ev::%s(x);" % pk,
             "let inner = <%s as Deserialize>::deserialize(StubDe::new(ev));" % ty,
             "let got = <%s as Deserialize>::deserialize(%s { ev });" % (d.name, de)]
        if d.has_validation():
            b.append("if let Ok(v) = got { match inner { Ok(xi) => { let s = %s; assert!(%s, \"deserialized a value the constructor rejects\"); let g = v.into_inner(); assert!(%s, \"deserialized value is not the sanitized value\"); } Err(_) => { assert!(false, \"newtype deserialized although the inner value does not\"); } } }"
                     % (d.san_ref("xi"), d.valid_expr("s"), d.eq("g", "s")))
        else:
            b.append("if let Ok(v) = got { match inner { Ok(xi) => { let s = %s; let g = v.into_inner(); assert!(%s, \"deserialized value is not the sanitized value\"); } Err(_) => { assert!(false); } } }" % (d.san_ref("xi"), d.eq("g", "s")))
        return b
    b = body("StubDeSeq") + ["kani::cover!(true);"]
    out.append("    #[kani::proof]\n    #[kani::unwind(5)]\n    pub fn %s_as_seq() {\n        %s\n    }\n" % (base, "\n        ".join(b)))
    hs.append(H(base + "_as_seq", "main", dict(d.describe(), deserializer="newtype struct presented as a one-element sequence (visit_seq)")))
    b = body("StubDeStrictOpt") + ["kani::cover!(true);",
        "let got2 = <%s as Deserialize>::deserialize(StubDeStrictOpt { ev });" % d.name,
        "assert!(got2.is_ok() == <%s as Deserialize>::deserialize(StubDe::new(ev)).is_ok(), \"a format with explicit options (RON) gets a different verdict than JSON/MessagePack for the same value\");" % d.name]
    out.append("    #[kani::proof]\n    #[kani::unwind(5)]\n    pub fn %s_strict_opt() {\n        %s\n    }\n" % (base, "\n        ".join(b)))
    hs.append(H(base + "_strict_opt", "main", dict(d.describe(), deserializer="RON-like explicit options")))
    return "".join(out), hs


def nested_harnesses(d, base):
    """every event KIND is concrete per harness (a symbolic kind makes CBMC merge all serde visitor paths: > 150 s); payloads are symbolic"""
    ty = d.ty
    out, hs = [], []
    pk = "F64" if is_float(ty) else ("I64" if is_signed(ty) else "U64")
    num = "Ev::%s(kani::any())" % pk
    prim = "Prim::%s(kani::any())" % pk
    def chk(x, v):  # compare one element
        if d.has_validation():
            return "{ let s = %s; assert!(%s, \"container holds a value the constructor rejects\"); let g = %s.into_inner(); assert!(%s); }" % (d.san_ref(x), d.valid_expr("s"), v, d.eq("g", "s"))
        return "{ let s = %s; let g = %s.into_inner(); assert!(%s); }" % (d.san_ref(x), v, d.eq("g", "s"))
    def invalid(x):
        return ("{ let s = %s; !(%s) }" % (d.san_ref(x), d.valid_expr("s"))) if d.has_validation() else "false"
    # Option<N>: explicit none / explicit some(prim) / bare value (JSON semantics)
    for tag, ev in (("none", "Ev::None"), ("some", "Ev::SomeOf(%s)" % prim), ("bare", num), ("somebool", "Ev::SomeOf(Prim::Bool(kani::any()))")):
        b = [d.setup(), "let ev = %s;" % ev,
             "let inner = <Option<%s> as Deserialize>::deserialize(StubDe::new(ev));" % ty,
             "let got = <Option<%s> as Deserialize>::deserialize(StubDe::new(ev));" % d.name,
             {"none": "kani::cover!(matches!(got, Ok(None)));", "somebool": "kani::cover!(got.is_err());"}.get(tag, "kani::cover!(matches!(got, Ok(Some(_))));" + (" kani::cover!(got.is_err() && inner.is_ok());" if d.has_validation() else "")),
             "match (inner, got) {\n            (Err(_), g) => { assert!(g.is_err()); }\n            (Ok(None), g) => { assert!(matches!(g, Ok(None))); }\n"
             "            (Ok(Some(x)), Ok(Some(v))) => %s\n            (Ok(Some(x)), Ok(None)) => { assert!(false, \"value lost\"); }\n            (Ok(Some(x)), Err(_)) => { assert!(%s, \"Option<N> failed on an acceptable value\"); }\n        }" % (chk("x", "v"), invalid("x"))]
        out.append("    #[kani::proof]\n    #[kani::unwind(4)]\n    pub fn %s_option_%s() {\n        %s\n    }\n" % (base, tag, "\n        ".join(b)))
        hs.append(H("%s_option_%s" % (base, tag), "main", dict(d.describe(), position="Option<N>", event=tag)))
    # [N; 2] and (N,): sequences of 0..2 primitives
    for n in (2, 1):
        b = [d.setup(), "let ev = Ev::Seq2(%s, %s, %d);" % (prim, prim, n),
             "let inner = <[%s; 2] as Deserialize>::deserialize(StubDe::new(ev));" % ty,
             "let got = <[%s; 2] as Deserialize>::deserialize(StubDe::new(ev));" % d.name,
             ("kani::cover!(got.is_ok());" + (" kani::cover!(got.is_err() && inner.is_ok());" if d.has_validation() else "")) if n == 2 else "kani::cover!(inner.is_err());",
             "match (inner, got) {\n            (Err(_), g) => { assert!(g.is_err()); }\n"
             "            (Ok([x0, x1]), Ok([v0, v1])) => { %s %s }\n            (Ok([x0, x1]), Err(_)) => { assert!(%s || %s, \"[N;2] failed although both elements are acceptable\"); }\n        }" % (chk("x0", "v0"), chk("x1", "v1"), invalid("x0"), invalid("x1"))]
        out.append("    #[kani::proof]\n    #[kani::unwind(5)]\n    pub fn %s_array2_len%d() {\n        %s\n    }\n" % (base, n, "\n        ".join(b)))
        hs.append(H("%s_array2_len%d" % (base, n), "main", dict(d.describe(), position="[N; 2] (sequence element)", delivered=n)))
    b = [d.setup(), "let ev = Ev::Seq2(%s, %s, 1);" % (prim, prim),
         "let inner = <(%s,) as Deserialize>::deserialize(StubDe::new(ev));" % ty,
         "let got = <(%s,) as Deserialize>::deserialize(StubDe::new(ev));" % d.name,
         "kani::cover!(got.is_ok());",
         "match (inner, got) {\n            (Err(_), g) => { assert!(g.is_err()); }\n"
         "            (Ok((x0,)), Ok((v0,))) => { %s }\n            (Ok((x0,)), Err(_)) => { assert!(%s, \"(N,) failed although the element is acceptable\"); }\n        }" % (chk("x0", "v0"), invalid("x0"))]
    out.append("    #[kani::proof]\n    #[kani::unwind(5)]\n    pub fn %s_tuple1() {\n        %s\n    }\n" % (base, "\n        ".join(b)))
    hs.append(H(base + "_tuple1", "main", dict(d.describe(), position="(N,)")))
    # struct field via serde derive
    b = [d.setup(), "let ev = %s;" % num,
         "let inner = <SI as Deserialize>::deserialize(StubMapDe { key: \"a\", val: ev });",
         "let got = <SN as Deserialize>::deserialize(StubMapDe { key: \"a\", val: ev });",
         "kani::cover!(got.is_ok()); kani::cover!(got.is_err() && inner.is_ok());" if d.has_validation() else "kani::cover!(got.is_ok());",
         "match (inner, got) {\n            (Err(_), g) => { assert!(g.is_err()); }\n"
         "            (Ok(SI { a: x0 }), Ok(SN { a: v0 })) => { %s }\n            (Ok(SI { a: x0 }), Err(_)) => { assert!(%s, \"struct field failed although the value is acceptable\"); }\n        }" % (chk("x0", "v0"), invalid("x0"))]
    out.append("    #[derive(Deserialize)] pub struct SI { a: %s }\n    #[derive(Deserialize)] pub struct SN { a: %s }\n" % (ty, d.name))
    out.append("    #[kani::proof]\n    #[kani::unwind(5)]\n    pub fn %s_field() {\n        %s\n    }\n" % (base, "\n        ".join(b)))
    hs.append(H(base + "_field", "main", dict(d.describe(), position="struct field (serde derive, map access)")))
    return "".join(out), hs


CUSTOM = '''
pub mod custom_%(ty)s {
    use super::*;
    use nutype::nutype;
    use crate::support::de::*;
    use serde::Deserialize;
    static mut MASK: %(bty)s = 0;
    #[derive(Debug, Clone, PartialEq)] pub struct MyErr;
    impl core::fmt::Display for MyErr { fn fmt(&self, _f: &mut core::fmt::Formatter<'_>) -> core::fmt::Result { Ok(()) } }
    fn vfn(x: &%(ty)s) -> Result<(), MyErr> { if (%(bits)s & unsafe { MASK }) != 0 { Ok(()) } else { Err(MyErr) } }
    /// custom validation, NO sanitizer
    #[nutype(validate(with = vfn, error = MyErr), derive(Debug, Deserialize))]
    pub struct N(%(ty)s);
    #[kani::proof]
    #[kani::unwind(4)]
    pub fn c04_custom_%(ty)s() {
        unsafe { MASK = kani::any(); }
        let ev = %(ev)s;
        let inner = <%(ty)s as Deserialize>::deserialize(StubDe::new(ev));
        let got = <N as Deserialize>::deserialize(StubDe::new(ev));
        kani::cover!(got.is_ok()); kani::cover!(got.is_err() && inner.is_ok());
        match (inner, got) {
            (Err(_), g) => assert!(g.is_err()),
            (Ok(x), Ok(v)) => { assert!(vfn(&x).is_ok(), "deserialized a value the custom validator rejects"); assert!(%(eq)s); }
            (Ok(x), Err(_)) => assert!(vfn(&x).is_err(), "deserialization failed although the custom validator accepts the value"),
        }
    }
}
'''


def generate(tier, seed):
    rng = random.Random(seed)
    plan = Plan("C04")
    src = ["// generated by props/c04.py\n"]
    all_types = INT_TYPES + FLOAT_TYPES
    core = ["i8", "u16", "i32", "u64", "f32", "f64"]
    types = all_types if tier == "thorough" else ["i8", "i32", "u64", "u128", "f32", "f64"] + rng.sample([t for t in all_types if t not in core and t != "u128"], 1)
    first = True
    for ty in types:
        fl = is_float(ty)
        combos = list(bound_combos()) if tier == "thorough" else ([[], ["gt", "le"], ["ge", "lt"]] if ty in ("i32", "f64") else [[], ["gt", "le"]])
        for bc in combos:
            for fin in ([False, True] if fl else [False]):
                base = list(bc) + (["finite"] if fin else [])
                variants = [(True, "fn"), (False, None)] if tier == "thorough" else [(bool(base), "fn")]
                for (p, s) in variants:
                    v = base + (["pred"] if p else [])
                    d = NumDecl(ty, v, san=s, derive=["Deserialize", "Default"], default=("1.0" if fl else "1"))
                    m = d.modname()
                    hsrc = ""
                    for (kind, evexpr) in kinds_for(ty, tier, rng):
                        hn = "c04_top_%s_ev_%s" % (m, kind)
                        hsrc += top_harness(d, hn, kind, evexpr)
                        plan.add(H(hn, "main", dict(d.describe(), event=kind)))
                        if first and v and s and accepts(ty, kind):
                            hsrc += top_harness(d, hn + "_must_fail", kind, evexpr, sabotage=True)
                            plan.add(H(hn + "_must_fail", "must_fail", {"sabotage": "oracle ignores the sanitizer"}))
                            first = False
                    if tier == "thorough" or ty in ("i32", "f64", "u64"):
                        asrc, ahs = alt_deserializer_harnesses(d, "c04_alt_" + m)
                        hsrc += asrc
                        for h in ahs:
                            plan.add(h)
                    if (tier == "thorough" and s) or (ty == "i32" and v in ([], ["gt", "le", "pred"])) or (ty == "f64" and v == ["gt", "le", "pred"]):
                        nsrc, nhs = nested_harnesses(d, "c04_nested_" + m)
                        hsrc += nsrc
                        for h in nhs:
                            plan.add(h)
                    src.append("pub mod %s {\n    use super::*;\n    use nutype::nutype;\n    %s\n    %s\n%s\n%s}\n" % (m, USE, d.prelude(), indent(d.attr()), hsrc))
    src.append(strprops.gen_c04(plan, tier, rng))
    for ty in (["i32", "f64"] if tier == "quick" else ["i8", "u16", "i32", "u64", "f32", "f64"]):
        fl = is_float(ty)
        src.append(CUSTOM % dict(ty=ty, bty=UBITS.get(ty, ty), bits="x.to_bits()" if fl else "*x",
                                 ev="Ev::F64(kani::any())" if fl else ("Ev::I64(kani::any())" if is_signed(ty) else "Ev::U64(kani::any())"),
                                 eq="v.into_inner().to_bits() == x.to_bits()" if fl else "v.into_inner() == x"))
        plan.add(H("c04_custom_%s" % ty, "main", {"type": ty, "validation": "custom with/error, no sanitizer"}))
    plan.source = "\n".join(src)
    plan.features = []
    plan.bounds = {"events": "one harness per (declaration, event kind): u8..u64, i8..i64, f32, f64, bool, char, unit, none, some(prim), seq of <=2 prims, a text event, all payload values; u128/i128 events only for 128-bit inner types (serde formats the number for smaller targets)",
                   "containers": "Option<N>, [N;2], (N,), struct field; <= 2 elements (unwind 4-5)"}
    plan.assumptions = ["stub Deserializer models how serde_json, ron and rmp-serde treat newtype structs: deserialize_newtype_struct(name, v) -> v.visit_newtype_struct(self)",
                        "byte-level parsers of the formats are trusted to deliver exactly these events", "de::Error::custom does not format (unit error type)",
                        "non-NaN float bound values; custom fns range over symbolic families"]
    if "-Z" not in plan.kani_flags:
        plan.kani_flags = plan.kani_flags + ["-Z", "stubbing"]
    plan.pre_steps = plan.pre_steps + [strprops.model_validation_step]
    plan.assumptions = plan.assumptions + strprops.ASSUMPTIONS
    plan.bounds["strings"] = "skeleton inputs: concrete whitespace/underscore/non-ASCII characters + <= 3 symbolic printable-ASCII fillers, one harness per (declaration, skeleton); unwind 12-14"
    return plan
