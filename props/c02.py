"""C02 — every written rule is enforced as written, or the declaration is rejected.

Accepted => enforced with the denoted value: decided by Kani for all inputs, per spelling.
Which spellings the macro accepts is observed with one `cargo check` pass (rustc verdict; a rejected spelling satisfies the property)."""
import json, os, random, re, shutil
from vlib.driver import Plan, H, sh, VERIF, REPO
from vlib.catalog import *

# (id, type, attribute text, reference predicate over `x` (ordinary typed Rust), extra items, can_ok, can_err)
def spellings():
    S = []
    def add(sid, ty, attr, ref, can_ok=True, can_err=True, note=""):
        S.append(dict(id=sid, ty=ty, attr=attr, ref=ref, can_ok=can_ok, can_err=can_err, note=note))
    I = "i32"
    # ---- integer bound spellings
    add("i_lit_pos", I, "validate(less = 5)", "x < 5")
    add("i_lit_neg", I, "validate(greater = -5)", "x > -5")
    add("i_lit_neg_sp", I, "validate(greater = - 5)", "x > -5")
    add("i_lit_us", I, "validate(less_or_equal = 1_000)", "x <= 1000")
    add("i_lit_hex", I, "validate(less = 0x10)", "x < 16")
    add("i_lit_suffix", I, "validate(less = 5i32)", "x < 5")
    add("i_const", I, "validate(less = K)", "x < K")
    add("i_neg_const", I, "validate(less = -K)", "x < -K")
    add("i_neg_const_gt", I, "validate(greater_or_equal = -K)", "x >= -K")
    add("i_paren", I, "validate(less = (K))", "x < K")
    add("i_neg_paren", I, "validate(less = -(K))", "x < -K")
    add("i_add", I, "validate(less = K + 1)", "x < K + 1")
    add("i_sub", I, "validate(greater = K - 1)", "x > K - 1")
    add("i_mul", I, "validate(less = K * 2)", "x < K * 2")
    add("i_lit_mul", I, "validate(less = 2 * K)", "x < 2 * K")
    add("i_shl", I, "validate(less = K << 1)", "x < (K << 1)")
    add("i_lit_shl", I, "validate(less = 1 << 4)", "x < (1 << 4)")
    add("i_or", I, "validate(less = K | 2)", "x < (K | 2)")
    add("i_not", I, "validate(greater = !K)", "x > !K")
    add("i_min", I, "validate(greater = i32::MIN)", "x > i32::MIN")
    add("i_max", I, "validate(less = i32::MAX)", "x < i32::MAX")
    add("i_neg_max", I, "validate(greater = -i32::MAX)", "x > -i32::MAX")
    add("i_call", I, "validate(less = f())", "x < f()")
    add("i_neg_call", I, "validate(less = -f())", "x < -f()")
    add("i_cast", I, "validate(less = K8 as i32)", "x < K8 as i32")
    add("i_block", I, "validate(less = { K })", "x < K")
    add("i_neg_lit_mul", I, "validate(less = -1 * K)", "x < -1 * K")
    add("i_hex_minus", I, "validate(less = 0x20 - 1)", "x < 0x20 - 1")
    add("i_suffix_minus", I, "validate(less = 10i32 - 3)", "x < 10 - 3")
    add("i_bin_minus", I, "validate(greater_or_equal = 0b1000 - 6)", "x >= 0b1000 - 6")
    add("i_lit_minus_const", I, "validate(less = 20 - K)", "x < 20 - K")
    add("f_suffix_minus", "f64", "validate(greater = 2.5f64 - 1.0)", "!(x <= 2.5 - 1.0)")
    add("f_lit_minus_const", "f64", "validate(less = 10.0 - KF)", "!(x >= 10.0 - KF)")
    add("i_two_bounds_neg", I, "validate(greater = -K, less = K)", "x > -K && x < K")
    add("i_u8_max", "u8", "validate(less_or_equal = 255)", "true", can_err=False)
    add("i_u8_over", "u8", "validate(less = 256)", "true", can_err=False)
    add("i_i8_min", "i8", "validate(greater_or_equal = -128)", "true", can_err=False)
    add("i_i64_big", "i64", "validate(less = 9_223_372_036_854_775_807)", "x < i64::MAX")
    add("i_usize_const", "usize", "validate(less = UK + 1)", "x < UK + 1")
    # user constants named like identifiers the generated code may introduce itself
    add("i_const_named_max", I, "validate(less = MAX)", "x < 9")
    add("i_const_named_min_max", I, "validate(greater_or_equal = MIN + 1, less_or_equal = MAX - 1)", "x >= -8 && x <= 8")
    add("i_const_cross_max", I, "validate(greater_or_equal = MAX - 5, less_or_equal = 100)", "x >= 4 && x <= 100")
    # ---- float bound spellings
    F = "f64"
    add("f_lit", F, "validate(less = 5.5)", "!(x >= 5.5)")
    add("f_int_lit", F, "validate(less = 5)", "!(x >= 5.0)")
    add("f_neg_int_lit", F, "validate(greater = -5)", "!(x <= -5.0)")
    add("f_exp", F, "validate(less = 1e3)", "!(x >= 1000.0)")
    add("f_exp_neg", F, "validate(greater_or_equal = -1.5e-3)", "!(x < -0.0015)")
    add("f_exp_cap", F, "validate(less = 2.5E2)", "!(x >= 250.0)")
    add("f_us", F, "validate(less = 1_0.0_1)", "!(x >= 10.01)")
    add("f_suffix", F, "validate(less = 5f64)", "!(x >= 5.0)")
    add("f_trailing_dot", F, "validate(less = 5.)", "!(x >= 5.0)")
    add("f_const", F, "validate(less = KF)", "!(x >= KF)")
    add("f_neg_const", F, "validate(less = -KF)", "!(x >= -KF)")
    add("f_neg_const_ge", F, "validate(greater_or_equal = -KF, finite)", "!(x < -KF) && x.is_finite()")
    add("f_finite_lit_bounds", F, "validate(finite, greater_or_equal = 0.0, less_or_equal = 1.0)", "x.is_finite() && x >= 0.0 && x <= 1.0")
    add("f_lit_bounds_finite_last", F, "validate(greater = -1, less = 1e3, finite)", "x.is_finite() && x > -1.0 && x < 1000.0")
    add("f_finite_const_bounds", F, "validate(finite, greater_or_equal = -KF, less_or_equal = KF)", "x.is_finite() && x >= -KF && x <= KF")
    add("f_max", F, "validate(less_or_equal = f64::MAX)", "!(x > f64::MAX)")
    add("f_inf", F, "validate(less = f64::INFINITY)", "!(x >= f64::INFINITY)")
    add("f_neg_inf", F, "validate(greater = -f64::INFINITY)", "!(x <= -f64::INFINITY)")
    add("f_arith", F, "validate(less = KF * 2.0 + 1.0)", "!(x >= KF * 2.0 + 1.0)")
    add("f_neg_zero", F, "validate(greater_or_equal = -0.0)", "!(x < 0.0)")
    add("f_f32_exp", "f32", "validate(less = 1e-3)", "!(x >= 0.001f32)")
    add("f_f32_int", "f32", "validate(greater = -3)", "!(x <= -3.0f32)")
    # ---- attribute layouts
    add("l_order1", I, "derive(Debug), validate(less = K), sanitize(with = san)", "san(x) < K")
    add("l_order2", I, "validate(less = K), derive(Debug), sanitize(with = san)", "san(x) < K")
    add("l_trailing", I, "sanitize(with = san,), validate(less = K, greater = -9,), derive(Debug,),", "san(x) < K && san(x) > -9")
    add("l_rep_validate", I, "validate(greater = 0), validate(less = 10)", "x > 0 && x < 10")
    add("l_rep_validate2", I, "validate(greater = 0, less = 100), validate(less = 10)", "x > 0 && x < 100 && x < 10")
    add("l_rep_sanitize", I, "sanitize(with = san), sanitize(with = san2), validate(less = K)", "san2(san(x)) < K")
    add("l_rep_sanitize_plain", I, "sanitize(with = san), validate(less = K), sanitize(with = san2)", "san2(san(x)) < K")
    add("l_two_with", I, "sanitize(with = san, with = san2), validate(less = K)", "san2(san(x)) < K")
    add("l_pred_closure", I, "validate(predicate = |v| *v != K)", "x != K")
    add("l_pred_closure_typed", I, "validate(predicate = |v: &i32| *v != K)", "x != K")
    add("l_pred_closure_block", I, "validate(predicate = |v| { let k = K; *v != k })", "x != K")
    add("l_san_closure_expr", I, "sanitize(with = |v| v ^ 3), validate(less = K)", "(x ^ 3) < K")
    add("l_san_closure_mut", I, "sanitize(with = |mut v| { v ^= 3; v }), validate(less = K)", "(x ^ 3) < K")
    add("l_san_closure_move", I, "sanitize(with = move |v| v ^ 3), validate(less = K)", "(x ^ 3) < K")
    add("l_pred_path_mod", I, "validate(predicate = helpers::nonzero)", "x != 0")
    add("l_custom_with_closure", I, "validate(with = |v: &i32| if *v < K { Ok(()) } else { Err(MyErr) }, error = MyErr)", "x < K")
    add("l_custom_with_path", I, "validate(with = vfn, error = MyErr)", "x < K")
    add("l_custom_error_first", I, "validate(error = MyErr, with = vfn)", "x < K")
    add("l_const_fn_first", I, "const_fn, validate(less = 7)", "x < 7")
    # layouts the documented grammar refuses; if a tree accepts one, every written rule must still be enforced (neither rule implies
    # the other: dropping EITHER is visible)
    add("l_mixed_with_no_error", I, "validate(greater = 0, with = vfn)", "x > 0 && x < K")
    add("l_mixed_with_error", I, "validate(greater = 0, with = vfn, error = MyErr)", "x > 0 && x < K")
    add("l_mixed_with_first", I, "validate(with = vfn, error = MyErr, greater = 0)", "x > 0 && x < K")
    add("l_builtin_with_error_only", I, "validate(greater = 0, error = MyErr)", "x > 0")
    add("l_dup_validator", I, "validate(less = 100, less = 10)", "x < 100 && x < 10")
    add("l_both_lower", I, "validate(greater = 0, greater_or_equal = 5)", "x > 0 && x >= 5")
    return S


PRELUDE = '''use nutype::nutype;
pub const K: i32 = 5; pub const K8: i8 = 5; pub const UK: usize = 5; pub const KF: f64 = 5.5;
pub const MAX: i32 = 9; pub const MIN: i32 = -9;
pub fn f() -> i32 { 7 }
pub fn lo_fn() -> i32 { 3 } pub fn lo_fn_f() -> f64 { 0.5 }
pub fn san(x: i32) -> i32 { x ^ 0x55 }
pub fn san2(x: i32) -> i32 { x.wrapping_add(3) }
#[derive(Debug, Clone, PartialEq)] pub struct MyErr;
pub fn vfn(v: &i32) -> Result<(), MyErr> { if *v < K { Ok(()) } else { Err(MyErr) } }
pub mod helpers { pub fn nonzero(v: &i32) -> bool { *v != 0 } }
'''


def module_src(sp, with_harness, sabotage=False):
    ty = sp["ty"]
    has_val = "validate(" in sp["attr"]
    src = "pub mod sp_%s {\n    use super::*;\n    #[nutype(%s)]\n    pub struct N(%s);\n" % (sp["id"], sp["attr"], ty)
    if with_harness:
        b = ["let x: %s = kani::any();" % ty, "let expect: bool = %s;" % (sp["ref"] if not sabotage else "!(%s)" % sp["ref"])]
        b.append("let got = N::try_new(x).is_ok();" if has_val else "let got = true;")
        if not sabotage:
            if sp["can_ok"]:
                b.append("kani::cover!(expect);")
            if sp["can_err"]:
                b.append("kani::cover!(!expect);")
        b.append("assert!(got == expect, \"an accepted declaration does not enforce the written rule with the value its bound denotes\");")
        name = "c02_%s%s" % (sp["id"], "_must_fail" if sabotage else "")
        src += "    #[kani::proof]\n    pub fn %s() {\n        %s\n    }\n" % (name, "\n        ".join(b))
    src += "}\n"
    return src


def probe_accepts(ctx, sps, nutype_features="", extra_deps=""):
    """rustc verdict per spelling: iterate `cargo check` removing the modules rustc blames until the crate compiles"""
    wdir = ctx["wdir"]
    pdir = os.path.join(wdir, "accept_probe")
    if os.path.exists(pdir):
        shutil.rmtree(pdir)
    os.makedirs(os.path.join(pdir, "src"))
    open(os.path.join(pdir, "Cargo.toml"), "w").write('[package]\nname = "accept_probe"\nversion = "0.0.0"\nedition = "2021"\n[dependencies]\nnutype = { path = "%s/nutype"%s }\n%s[workspace]\n' % (REPO, (', features = [%s]' % nutype_features) if nutype_features else "", extra_deps))
    shutil.copy(os.path.join(REPO, "Cargo.lock"), os.path.join(pdir, "Cargo.lock"))
    alive = list(sps)
    rejected = {}
    for rnd in range(8):
        lines = ["#![allow(dead_code, unused)]", PRELUDE]
        spans = []
        for sp in alive:
            start = sum(l.count("\n") + 1 for l in lines) + 1
            m = module_src(sp, False)
            lines.append(m.rstrip("\n"))
            end = start + m.rstrip("\n").count("\n")
            spans.append((start, end, sp))
        open(os.path.join(pdir, "src", "lib.rs"), "w").write("\n".join(lines) + "\n")
        rc, out = sh(["cargo", "check", "--offline", "--message-format=json", "--target-dir", os.path.join(wdir, "target-probe")], cwd=pdir, timeout=1200,
                     log=os.path.join(wdir, "accept_probe.log"))
        if rc == 0:
            break
        blamed = {}
        for ln in out.splitlines():
            if not ln.startswith("{"):
                continue
            try:
                j = json.loads(ln)
            except Exception:
                continue
            msg = j.get("message") or {}
            if msg.get("level") != "error":
                continue
            for sp_ in msg.get("spans", []):
                if sp_.get("file_name", "").endswith("lib.rs"):
                    for (a, b, sp) in spans:
                        if a <= sp_["line_start"] <= b:
                            blamed.setdefault(sp["id"], msg.get("message", "")[:200])
        if not blamed:
            return None, None, "cargo check failed but no error could be attributed to a spelling: " + out[-800:]
        for sid, why in blamed.items():
            rejected[sid] = why
        alive = [sp for sp in alive if sp["id"] not in blamed]
    else:
        return None, None, "accept probe did not converge"
    return alive, rejected, None


def generate(tier, seed):
    plan = Plan("C02")
    sps = spellings()
    state = {}

    def pre(ctx):
        alive, rejected, err = probe_accepts(ctx, sps)
        if err:
            return [("inconclusive", "accept-probe", {"what": err})]
        state["alive"], state["rejected"] = alive, rejected
        # regenerate the harness source with the accepted spellings only
        src = ["// generated by props/c02.py (accepted spellings only)\n" + PRELUDE]
        plan.harnesses[:] = []
        first = True
        for sp in alive:
            src.append(module_src(sp, True))
            plan.add(H("c02_" + sp["id"], "main", {"spelling": sp["attr"], "type": sp["ty"], "reference": sp["ref"]}))
            if first:
                src.append(module_src(dict(sp, id=sp["id"] + "_sab"), True, sabotage=True).replace("c02_%s_sab_must_fail" % sp["id"], "c02_%s_must_fail" % sp["id"]))
                plan.add(H("c02_%s_must_fail" % sp["id"], "must_fail", {"sabotage": "negated reference"}))
                first = False
        open(os.path.join(ctx["crate"], "src", "gen_c02.rs"), "w").write("\n".join(src))
        plan.extra_evidence["rejected_spellings"] = [{"spelling": next(s["attr"] for s in sps if s["id"] == k), "rustc": v} for k, v in sorted(rejected.items())]
        plan.extra_evidence["accepted_spellings"] = len(alive)
        return [("ok", "accept-probe", {"what": "%d spellings accepted, %d rejected at compile time (rejection satisfies the property)" % (len(alive), len(rejected))})]

    plan.pre_steps = [pre]
    plan.source = "// placeholder, replaced by the pre-step\n"
    plan.bounds = {"inputs": "all values of the inner type, per spelling (loop-free)", "spellings": "finite catalogue of %d bound spellings / attribute layouts (enumerated, not solved)" % len(sps)}
    plan.assumptions = ["which spellings are accepted is rustc's verdict observed with `cargo check` on the same declarations (a rejected spelling satisfies the property and gets no harness)",
                        "the 'cannot honour => rejected' direction is not decided by this technique beyond that observation",
                        "bound expressions containing braces (`if c {1} else {2}`) are left out: the macro's generated #[cfg(test)] format string does not compile with them, which would break native replay of every harness in the crate"]
    return plan
