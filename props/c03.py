"""C03 — TryFrom / From / Default agree with the canonical constructor (numeric part; strings added in c03 string section)."""
import random
from vlib.driver import Plan, H
from vlib.catalog import *
from props import strprops


def conv_harness(d, hname, sabotage=False):
    ty = d.ty
    b = [d.setup(), "let raw: %s = kani::any();" % ty, "let s: %s = %s;" % (ty, d.san_ref("raw"))]
    if d.has_validation():
        b.append("let valid: bool = %s;" % d.valid_expr("s"))
        b.append("let r = <%s as ::core::convert::TryFrom<%s>>::try_from(raw);" % (d.name, ty))
        b.append("let c = %s::try_new(raw);" % d.name)
        b.append("kani::cover!(r.is_ok()); kani::cover!(r.is_err());")
        ok_eq = d.eq("x", "s") if not sabotage else d.eq("x", "raw")
        b.append("match (r, c) {\n            (Ok(x), Ok(y)) => { let (x, y) = (x.into_inner(), y.into_inner()); assert!(valid); assert!(%s, \"TryFrom stored a value other than the sanitized one\"); assert!(%s); }\n"
                 "            (Err(e), Err(f)) => { assert!(!valid); assert!(e == f, \"TryFrom error differs from try_new error\"); }\n"
                 "            _ => { assert!(false, \"TryFrom and try_new disagree on accept/reject\"); }\n        }" % (ok_eq, d.eq("x", "y")))
    else:
        if "From" in d.derive:
            b.append("let f = <%s as ::core::convert::From<%s>>::from(raw).into_inner();" % (d.name, ty))
        else:
            b.append("let f = %s;" % ("s" if not sabotage else "raw"))
        b.append("let t: ::core::result::Result<%s, ::core::convert::Infallible> = <%s as ::core::convert::TryFrom<%s>>::try_from(raw);" % (d.name, d.name, ty))
        b.append("let t = match t { Ok(v) => v.into_inner(), Err(e) => match e {} };")
        b.append("let n = %s::new(raw).into_inner();" % d.name)
        b.append("kani::cover!(true);")
        tgt = "s" if not sabotage else "raw"
        b.append("assert!(%s, \"From did not wrap the sanitized value\"); assert!(%s, \"TryFrom(Infallible) did not wrap the sanitized value\"); assert!(%s);" % (d.eq("f", tgt), d.eq("t", tgt), d.eq("n", "s")))
    return "    #[kani::proof]\n    pub fn %s() {\n        %s\n    }\n" % (hname, "\n        ".join(b))


def default_harnesses(d, base):
    """default = dflt() with symbolic DFLT.  A: valid default -> equals constructor; B: invalid default -> default() returns on no path."""
    ty = d.ty
    out = []
    hs = []
    setup = d.setup() + "\n        let dv: %s = kani::any(); unsafe { DFLT = dv; }\n        let s: %s = %s;" % (ty, ty, d.san_ref("dv"))
    if d.has_validation():
        a = [setup, "let valid: bool = %s;" % d.valid_expr("s"), "kani::assume(valid);",
             "let got = <%s as ::core::default::Default>::default().into_inner();" % d.name, "kani::cover!(true);",
             "assert!(%s, \"Default differs from try_new(default expr)\");" % d.eq("got", "s")]
        out.append("    #[kani::proof]\n    pub fn %s_ok() {\n        %s\n    }\n" % (base, "\n        ".join(a)))
        hs.append(H(base + "_ok", "main", dict(d.describe(), default="symbolic, assumed valid after sanitisation")))
        bb = [setup, "let valid: bool = %s;" % d.valid_expr("s"), "kani::assume(!valid);",
              "let got = <%s as ::core::default::Default>::default();" % d.name,
              "kani::cover!(true, \"MARKER default() returned although the default is invalid\");"]
        out.append("    #[kani::proof]\n    #[kani::should_panic]\n    pub fn %s_invalid() {\n        %s\n    }\n" % (base, "\n        ".join(bb)))
        hs.append(H(base + "_invalid", "main", dict(d.describe(), default="symbolic, assumed invalid"), expect_panic=True,
                    unreachable=["MARKER default() returned"]))
        # every call: a first call with a valid default must not exempt later calls from validation (the default expression is
        # evaluated per call; here it reads a static that changes between the calls)
        cc = [d.setup(), "let d1: %s = kani::any(); unsafe { DFLT = d1; }" % ty, "let s1: %s = %s;" % (ty, d.san_ref("d1")), "kani::assume(%s);" % d.valid_expr("s1"),
              "let first = <%s as ::core::default::Default>::default().into_inner();" % d.name, "assert!(%s, \"Default differs from try_new(default expr)\");" % d.eq("first", "s1"),
              "let d2: %s = kani::any(); unsafe { DFLT = d2; }" % ty, "let s2: %s = %s;" % (ty, d.san_ref("d2")), "kani::assume(!(%s));" % d.valid_expr("s2"),
              "let got = <%s as ::core::default::Default>::default();" % d.name,
              "kani::cover!(true, \"MARKER default() returned although the default is invalid\");"]
        out.append("    #[kani::proof]\n    #[kani::should_panic]\n    pub fn %s_second_call_invalid() {\n        %s\n    }\n" % (base, "\n        ".join(cc)))
        hs.append(H(base + "_second_call_invalid", "main", dict(d.describe(), default="first call: symbolic valid default (returns it); second call: symbolic invalid default"),
                    expect_panic=True, unreachable=["MARKER default() returned"]))
    else:
        a = [setup, "let got = <%s as ::core::default::Default>::default().into_inner();" % d.name, "kani::cover!(true);",
             "assert!(%s, \"Default differs from new(default expr)\");" % d.eq("got", "s")]
        out.append("    #[kani::proof]\n    pub fn %s_ok() {\n        %s\n    }\n" % (base, "\n        ".join(a)))
        hs.append(H(base + "_ok", "main", dict(d.describe(), default="symbolic")))
    return "".join(out), hs


OTHER = r"""
pub mod other_types {
    use super::*;
    use nutype::nutype;
    static mut MASK: i32 = 0; static mut K: i32 = 0; static mut DX: i32 = 0;
    #[derive(Debug, Clone, Copy, PartialEq, Default)]
    pub struct P { pub x: i32, pub y: i32 }
    fn okp(p: &P) -> bool { (p.x & unsafe { MASK }) != 0 }
    fn sanp(p: P) -> P { P { x: p.x ^ unsafe { K }, y: p.y } }
    fn dflt() -> P { P { x: unsafe { DX }, y: 7 } }
    #[nutype(sanitize(with = sanp), validate(predicate = okp), derive(Debug, TryFrom, Default), default = dflt())] pub struct NV(P);
    // custom validation (with/error), NO sanitizer
    #[derive(Debug, Clone, PartialEq)] pub struct CErr(pub i32);
    fn vcustom(p: &P) -> Result<(), CErr> { if okp(p) { Ok(()) } else { Err(CErr(p.x)) } }
    #[nutype(validate(with = vcustom, error = CErr), derive(Debug, TryFrom, Default), default = dflt())] pub struct NC(P);
    static mut DI: u64 = 0; static mut MI: u64 = 0;
    fn dflt_i() -> u64 { unsafe { DI } }
    fn vint(x: &u64) -> Result<(), CErr> { if (*x & unsafe { MI }) != 0 { Ok(()) } else { Err(CErr(1)) } }
    #[nutype(validate(with = vint, error = CErr), derive(Debug, TryFrom, Default), default = dflt_i())] pub struct NCI(u64);
    #[nutype(sanitize(with = sanp), derive(Debug, From, Default), default = dflt())] pub struct NF(P);
    #[nutype(sanitize(with = sanp), derive(Debug, TryFrom))] pub struct NT(P);
    #[nutype(sanitize(with = |t: [T; 2]| t), validate(predicate = |t: &[T; 2]| t[0] != t[1]), derive(Debug, TryFrom))] pub struct GV<T: PartialEq>([T; 2]);
    #[nutype(derive(Debug, From))] pub struct GF<T>(T);
    fn anyp() -> P { P { x: kani::any(), y: kani::any() } }

    #[kani::proof]
    #[kani::unwind(10)]
    pub fn c03_other_conversions() {
        unsafe { MASK = kani::any(); K = kani::any(); }
        let raw = anyp(); let s = sanp(raw); let valid = okp(&s);
        kani::cover!(valid); kani::cover!(!valid);
        match <NV as TryFrom<P>>::try_from(raw) { Ok(v) => { assert!(valid, "TryFrom accepted a value the constructor rejects"); assert!(v.into_inner() == s, "TryFrom stored something other than the sanitized value"); } Err(e) => { assert!(!valid); assert!(e == NVError::PredicateViolated); } }
        assert!(<NF as From<P>>::from(raw).into_inner() == s, "From did not wrap the sanitized value");
        match <NT as TryFrom<P>>::try_from(raw) { Ok(v) => assert!(v.into_inner() == s, "infallible TryFrom did not wrap the sanitized value"), Err(e) => match e {} }
        let g: [i16; 2] = kani::any();
        match <GV<i16> as TryFrom<[i16; 2]>>::try_from(g) { Ok(v) => { assert!(g[0] != g[1]); assert!(v.into_inner() == g); } Err(_) => assert!(g[0] == g[1]) }
        assert!(<GF<(u8, u8)> as From<(u8, u8)>>::from((1, 2)).into_inner() == (1, 2));
    }
    #[kani::proof]
    pub fn c03_other_default_ok() {
        unsafe { MASK = kani::any(); K = kani::any(); DX = kani::any(); }
        let s = sanp(dflt());
        assert!(<NF as Default>::default().into_inner() == s, "Default differs from new(default expr)");
        kani::assume(okp(&s));
        kani::cover!(true);
        assert!(<NV as Default>::default().into_inner() == s, "Default differs from try_new(default expr)");
    }
    #[kani::proof]
    pub fn c03_custom_validation_conversions_and_default_ok() {
        unsafe { MASK = kani::any(); DX = kani::any(); DI = kani::any(); MI = kani::any(); }
        let raw = anyp();
        match <NC as TryFrom<P>>::try_from(raw) { Ok(v) => { assert!(okp(&raw)); assert!(v.into_inner() == raw); } Err(e) => { assert!(!okp(&raw)); assert!(e == CErr(raw.x), "custom error not returned unchanged by TryFrom"); } }
        let x: u64 = kani::any();
        match <NCI as TryFrom<u64>>::try_from(x) { Ok(v) => { assert!(vint(&x).is_ok()); assert!(v.into_inner() == x); } Err(_) => assert!(vint(&x).is_err()) }
        if okp(&dflt()) { kani::cover!(true); assert!(<NC as Default>::default().into_inner() == dflt(), "Default differs from try_new(default expr) under custom validation"); }
        if vint(&dflt_i()).is_ok() { assert!(<NCI as Default>::default().into_inner() == dflt_i()); }
    }
    #[kani::proof]
    #[kani::should_panic]
    pub fn c03_custom_validation_default_invalid() {
        unsafe { MASK = kani::any(); DX = kani::any(); }
        kani::assume(!okp(&dflt()));
        let v = <NC as Default>::default();
        kani::cover!(true, "MARKER default() returned although the default is invalid");
    }
    #[kani::proof]
    #[kani::should_panic]
    pub fn c03_custom_validation_int_default_invalid() {
        unsafe { DI = kani::any(); MI = kani::any(); }
        kani::assume(vint(&dflt_i()).is_err());
        let v = <NCI as Default>::default();
        kani::cover!(true, "MARKER default() returned although the default is invalid");
    }
    #[kani::proof]
    #[kani::should_panic]
    pub fn c03_other_default_invalid() {
        unsafe { MASK = kani::any(); K = kani::any(); DX = kani::any(); }
        kani::assume(!okp(&sanp(dflt())));
        let v = <NV as Default>::default();
        kani::cover!(true, "MARKER default() returned although the default is invalid");
    }
}
"""


def generate(tier, seed):
    rng = random.Random(seed)
    plan = Plan("C03")
    src = ["// generated by props/c03.py\n"]
    all_types = INT_TYPES + FLOAT_TYPES
    core = ["i8", "u16", "i32", "u64", "f32", "f64"]
    types = all_types if tier == "thorough" else core + rng.sample([t for t in all_types if t not in core], 2)
    first = True
    for ty in types:
        fl = is_float(ty)
        combos = list(bound_combos())
        for bc in combos:
            for fin in ([False, True] if fl else [False]):
                base = list(bc) + (["finite"] if fin else [])
                variants = [(p, s) for p in (False, True) for s in (None, "fn")] if tier == "thorough" else [(bool(base), "fn")]
                vs2 = []
                for (p, s) in variants:
                    v = base + (["pred"] if p else [])
                    if v:
                        vs2.append((v, s, ["TryFrom", "Default"], None))
                    else:
                        # From and TryFrom cannot be derived together (TryFrom comes from std's blanket impl then)
                        vs2.append((v, s, ["From", "Default"], "from"))
                        vs2.append((v, s, ["TryFrom", "Default"], "tryfrom"))
                for (v, s, derive, tag) in vs2:
                    d = NumDecl(ty, v, san=s, derive=derive, default="dflt()")
                    if tag:
                        d._mod = d.modname() + "_" + tag
                    m = d.modname()
                    pre = d.prelude() + "\n    static mut DFLT: %s = %s; fn dflt() -> %s { unsafe { DFLT } }" % (ty, "0.0" if fl else "0", ty)
                    hn = "c03_conv_" + m
                    hsrc = conv_harness(d, hn)
                    plan.add(H(hn, "main", d.describe()))
                    if first and v and s:
                        hsrc += conv_harness(d, hn + "_must_fail", sabotage=True)
                        plan.add(H(hn + "_must_fail", "must_fail", {"sabotage": "expects TryFrom to wrap the raw value"}))
                        first = False
                    dsrc, dhs = default_harnesses(d, "c03_default_" + m)
                    for h in dhs:
                        plan.add(h)
                    src.append("pub mod %s {\n    use super::*;\n    use nutype::nutype;\n    %s\n%s\n%s%s}\n" % (m, pre, indent(d.attr()), hsrc, dsrc))
    # literal defaults (the macro splices the literal verbatim)
    n = 0
    for ty, lo, hi, dv, ok in [("i32", "-5", "5", "5", True), ("i32", "-5", "5", "6", False), ("u8", "0", "255", "255", True), ("i8", "-128", "0", "-128", True),
                               ("f64", "-1.0", "1.0", "-0.0", True), ("f64", "-1.0", "1.0", "f64::NAN", False), ("f32", "0.0", "1.0", "f32::INFINITY", False),
                               ("i128", "-170141183460469231731687303715884105728", "0", "-170141183460469231731687303715884105728", True)]:
        n += 1
        v = ["ge", "le"] + (["finite"] if is_float(ty) else [])
        d = NumDecl(ty, v, san=None, derive=["Default"], default=dv, bounds={"lo": lo, "hi": hi}, modname="%s_litdflt%d" % (ty, n))
        hn = "c03_default_" + d.modname()
        if ok:
            body = "let got = <N as ::core::default::Default>::default().into_inner(); kani::cover!(true); let e: %s = %s; assert!(%s);" % (ty, dv, d.eq("got", "e"))
            hsrc = "    #[kani::proof]\n    pub fn %s() { %s }\n" % (hn, body)
            plan.add(H(hn, "main", dict(d.describe(), default=dv)))
        else:
            body = "let got = <N as ::core::default::Default>::default(); kani::cover!(true, \"MARKER default() returned although the default is invalid\");"
            hsrc = "    #[kani::proof]\n    #[kani::should_panic]\n    pub fn %s() { %s }\n" % (hn, body)
            plan.add(H(hn, "main", dict(d.describe(), default=dv), expect_panic=True, unreachable=["MARKER default() returned"]))
        src.append("pub mod %s {\n    use super::*;\n    use nutype::nutype;\n    %s\n%s\n%s}\n" % (d.modname(), d.prelude(), indent(d.attr()), hsrc))
    src.append(OTHER)
    plan.add(H("c03_other_conversions", "main", {"case": "struct and generic inner types: TryFrom (validated / infallible), From"}))
    plan.add(H("c03_other_default_ok", "main", {"case": "struct inner type: Default with symbolic default expression (valid)"}))
    plan.add(H("c03_custom_validation_conversions_and_default_ok", "main", {"case": "custom with/error validation without sanitizers: TryFrom and valid Default (struct and u64 inner)"}))
    plan.add(H("c03_custom_validation_default_invalid", "main", {"case": "custom validation, struct inner: invalid default never returns"}, expect_panic=True, unreachable=["MARKER default() returned"]))
    plan.add(H("c03_custom_validation_int_default_invalid", "main", {"case": "custom validation, u64 inner: invalid default never returns"}, expect_panic=True, unreachable=["MARKER default() returned"]))
    plan.add(H("c03_other_default_invalid", "main", {"case": "struct inner type: invalid default never returns"}, expect_panic=True, unreachable=["MARKER default() returned"]))
    src.append(strprops.gen_c03(plan, tier, rng))
    plan.source = "\n".join(src)
    plan.bounds = {"numeric": "loop-free: every input, bound, default value of the inner type"}
    plan.assumptions = ["bound values of float declarations are non-NaN", "custom predicate/sanitizer range over pred(x)=(bits&MASK)!=0, san(x)=bits^K",
                        "Default-invalid harnesses: Kani should_panic + a cover marker after the call that must be unreachable"]
    if "-Z" not in plan.kani_flags:
        plan.kani_flags = plan.kani_flags + ["-Z", "stubbing"]
    plan.pre_steps = plan.pre_steps + [strprops.model_validation_step]
    plan.assumptions = plan.assumptions + strprops.ASSUMPTIONS
    plan.bounds["strings"] = "skeleton inputs: concrete whitespace/underscore/non-ASCII characters + <= 3 symbolic printable-ASCII fillers, one harness per (declaration, skeleton); unwind 12-14"
    return plan
