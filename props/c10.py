"""C10 — serialization is transparent (exactly one serialize_newtype_struct(<TypeName>, &inner)); valid values survive a round trip."""
import random
from vlib.driver import Plan, H
from vlib.catalog import *
from props import strprops

USE = "use crate::support::de::*;\n    use crate::support::ser::*;\n    use serde::{Deserialize, Serialize};"

EVK = {"i8": "I8", "i16": "I16", "i32": "I32", "i64": "I64", "u8": "U8", "u16": "U16", "u32": "U32", "u64": "U64", "f32": "F32", "f64": "F64",
       "isize": "I64", "usize": "U64"}


def ser_harness(d, hname, sabotage=False):
    ty = d.ty
    nm = d.name
    b = [d.setup(), "let raw: %s = kani::any();" % ty]
    if d.has_validation():
        b.append("let v = match %s::try_new(raw) { Ok(x) => x, Err(_) => return };" % nm)
    else:
        b.append("let v = %s::new(raw);" % nm)
    b += ["let iv: %s = %s;" % (ty, d.san_ref("raw")),
          "kani::cover!(true, \"obtainable value\");",
          "let r = match v.serialize(RecSer) { Ok(r) => r, Err(_) => { assert!(false, \"serialization failed\"); return; } };",
          "let ri = iv.serialize(RecSer).unwrap();",
          "assert!(r.ev == ri.ev, \"serialized payload differs from the inner value's own encoding\");",
          "assert!(r.newtype_depth == %s && r.some_depth == ri.some_depth, \"not exactly one serialize_newtype_struct call\");" % ("ri.newtype_depth + 1" if not sabotage else "ri.newtype_depth"),
          "assert!(r.name_len == %d && r.name_first == b'%s' && r.name_last == b'%s', \"newtype struct name is not the declared type name\");" % (len(nm), nm[0], nm[-1])]
    # round trip through the stub deserializer with the event the inner value encodes as
    if ty in ("i128", "u128"):
        ev = "StubDe128 { ev: Ev128::%s(iv) }" % ("I" if ty == "i128" else "U")
    elif ty in ("isize", "usize"):
        ev = "StubDe::new(Ev::%s(iv as %s))" % (EVK[ty], "i64" if ty == "isize" else "u64")
    else:
        ev = "StubDe::new(Ev::%s(iv))" % EVK[ty]
    b += ["let back = <%s as Deserialize>::deserialize(%s);" % (nm, ev),
          "match back { Ok(w) => { let g = w.into_inner(); assert!(%s, \"round trip changed the value\"); } Err(_) => { assert!(false, \"a valid value does not survive the round trip\"); } }" % d.eq("g", "iv")]
    return "    #[kani::proof]\n    #[kani::unwind(6)]\n    pub fn %s() {\n        %s\n    }\n" % (hname, "\n        ".join(b))


OTHER = r'''
pub mod other_types {
    use super::*;
    use nutype::nutype;
    use crate::support::de::*;
    use crate::support::ser::*;
    use serde::{Deserialize, Serialize};
    #[derive(Debug, Clone, Copy, PartialEq, Serialize, Deserialize)]
    pub struct P { pub x: i32, pub y: i32 }
    static mut MASK: i32 = 0;
    fn okp(p: &P) -> bool { (p.x & unsafe { MASK }) != 0 }
    #[nutype(validate(predicate = okp), derive(Debug, Serialize))]
    pub struct Point(P);
    #[nutype(validate(predicate = |t: &T| *t != T::default()), derive(Debug, Serialize, Deserialize))]
    pub struct Wrapper<T: Default + PartialEq>(T);
    #[nutype(derive(Debug, Serialize, Deserialize))]
    pub struct Maybe(Option<i16>);
    #[nutype(derive(Debug, Serialize))]
    pub struct Pair((u8, u8));
    // derive-set interaction: Serialize together with IntoIterator must still be the inner value's own encoding
    #[nutype(derive(Debug, Serialize, IntoIterator))]
    pub struct IterOpt(Option<i16>);
    #[nutype(derive(Debug, Serialize, IntoIterator, AsRef))]
    pub struct IterArr([u8; 2]);

    #[kani::proof]
    #[kani::unwind(6)]
    pub fn c10_other_struct() {
        unsafe { MASK = kani::any(); }
        let p = P { x: kani::any(), y: kani::any() };
        let v = match Point::try_new(p) { Ok(v) => v, Err(_) => return };
        kani::cover!(true, "obtainable value");
        let r = v.serialize(RecSer).unwrap(); let ri = p.serialize(RecSer).unwrap();
        assert!(r.ev == ri.ev && r.newtype_depth == ri.newtype_depth + 1, "struct inner: not a newtype struct around the inner encoding");
        assert!(r.name_len == 5 && r.name_first == b'P' && r.name_last == b't', "newtype struct name is not the declared type name");
    }
    #[kani::proof]
    #[kani::unwind(6)]
    pub fn c10_generic() {
        let x: i32 = kani::any();
        let v = match Wrapper::<i32>::try_new(x) { Ok(v) => v, Err(_) => return };
        kani::cover!(true, "obtainable value");
        let r = v.serialize(RecSer).unwrap(); let ri = x.serialize(RecSer).unwrap();
        assert!(r.ev == ri.ev && r.newtype_depth == 1);
        assert!(r.name_len == 7 && r.name_first == b'W' && r.name_last == b'r', "generic newtype: struct name is not the bare type name");
        let back = <Wrapper<i32> as Deserialize>::deserialize(StubDe::new(Ev::I32(x)));
        unsafe { assert!(LAST_NEWTYPE_NAME.len() == 7 && LAST_NEWTYPE_NAME.as_bytes()[0] == b'W' && LAST_NEWTYPE_NAME.as_bytes()[6] == b'r', "generic newtype: deserialize_newtype_struct name differs from the serialized name"); }
        match back { Ok(w) => assert!(w.into_inner() == x), Err(_) => assert!(false, "generic newtype does not round trip") }
    }
    #[kani::proof]
    #[kani::unwind(6)]
    pub fn c10_option_tuple() {
        let o: Option<i16> = kani::any();
        let v = Maybe::new(o);
        let r = v.serialize(RecSer).unwrap(); let ri = o.serialize(RecSer).unwrap();
        assert!(r.ev == ri.ev && r.some_depth == ri.some_depth && r.newtype_depth == 1 && r.name_len == 5 && r.name_first == b'M');
        let t: (u8, u8) = kani::any();
        let r2 = Pair::new(t).serialize(RecSer).unwrap(); let ri2 = t.serialize(RecSer).unwrap();
        assert!(r2.ev == ri2.ev && r2.newtype_depth == 1 && r2.name_len == 4);
        let r3 = IterOpt::new(o).serialize(RecSer).unwrap();
        assert!(r3.ev == ri.ev && r3.some_depth == ri.some_depth && r3.newtype_depth == 1, "Serialize of an iterable (Option) newtype differs from the inner value's own encoding");
        let a: [u8; 2] = kani::any();
        let r4 = IterArr::new(a).serialize(RecSer).unwrap(); let ri4 = a.serialize(RecSer).unwrap();
        assert!(r4.ev == ri4.ev && r4.newtype_depth == 1 && r4.seq_kind == ri4.seq_kind, "Serialize of an iterable (array) newtype differs from the inner value's own encoding");
    }
}
'''


def generate(tier, seed):
    rng = random.Random(seed)
    plan = Plan("C10")
    src = ["// generated by props/c10.py\n"]
    all_types = INT_TYPES + FLOAT_TYPES
    core = ["i8", "u16", "i32", "u64", "u128", "f32", "f64"]
    types = all_types if tier == "thorough" else core + rng.sample([t for t in all_types if t not in core], 1)
    first = True
    for ty in types:
        fl = is_float(ty)
        combos = list(bound_combos()) if tier == "thorough" else [[], ["gt", "le"], ["ge"]]
        for bc in combos:
            for fin in ([False, True] if fl else [False]):
                base = list(bc) + (["finite"] if fin else [])
                for (p, s) in ([(True, "fn"), (False, None)] if tier == "thorough" else [(bool(base), "fn")]):
                    v = base + (["pred"] if p else [])
                    d = NumDecl(ty, v, san=s, derive=["Debug", "Serialize", "Deserialize"], san_op="or", name="Temp")
                    m = d.modname()
                    hn = "c10_" + m
                    hsrc = ser_harness(d, hn)
                    plan.add(H(hn, "main", d.describe()))
                    if first:
                        hsrc += ser_harness(d, hn + "_must_fail", sabotage=True)
                        plan.add(H(hn + "_must_fail", "must_fail", {"sabotage": "expects no newtype-struct wrapper"}))
                        first = False
                    src.append("pub mod %s {\n    use super::*;\n    use nutype::nutype;\n    %s\n    %s\n%s\n%s}\n" % (m, USE, d.prelude(), indent(d.attr()), hsrc))
    src.append(OTHER)
    for hn, what in [("c10_other_struct", "struct inner type P{x,y} (serde derive)"), ("c10_generic", "generic Wrapper<T> at i32: name and round trip"), ("c10_option_tuple", "Option<i16> and (u8,u8) inner types")]:
        plan.add(H(hn, "main", {"case": what}))
    src.append(strprops.gen_c10(plan, tier, rng))
    plan.source = "\n".join(src)
    plan.bounds = {"numeric": "all inputs and bounds; idempotent symbolic sanitizer san(x)=bits|K", "events": "recording Serializer; round trip through the C04 stub Deserializer with the event the inner value serializes as"}
    plan.assumptions = ["'byte-identical to the inner encoding in JSON and MessagePack' follows from those formats' documented handling of newtype structs (serialize_newtype_struct(_, v) = v.serialize(self)); the real encoders/decoders (float printing, escaping) are trusted",
                        "RON's textual form and name-checking are not executed; the struct name handed to the (de)serializer is checked to be the declared type name",
                        "non-NaN float bounds"]
    if "-Z" not in plan.kani_flags:
        plan.kani_flags = plan.kani_flags + ["-Z", "stubbing"]
    plan.pre_steps = plan.pre_steps + [strprops.model_validation_step]
    plan.assumptions = plan.assumptions + strprops.ASSUMPTIONS
    plan.bounds["strings"] = "skeleton inputs: concrete whitespace/underscore/non-ASCII characters + <= 3 symbolic printable-ASCII fillers, one harness per (declaration, skeleton); unwind 12-14"
    return plan
