"""C06 — non-string FromStr is inner parsing followed by the constructor."""
import random
from vlib.driver import Plan, H
from vlib.catalog import *

USE = "use core::str::FromStr;\n    use crate::support::{is_symbolic, is_symbolic_true};"


def result_match(d, parsed, r, sabotage=False):
    """`parsed: Result<ty, _>` from the inner parser (oracle), `r` = N::from_str result"""
    s = "let s = %s;" % (d.san_ref("x") if not sabotage else "x")
    if d.has_validation():
        return ("match %s {\n            Err(_) => { assert!(matches!(%s, Err(NParseError::Parse(_))), \"inner parser rejects the text but from_str did not return Parse\"); }\n"
                "            Ok(x) => { %s let valid: bool = %s; let c = N::try_new(x);\n"
                "                match (%s, c) { (Ok(v), Ok(w)) => { assert!(valid, \"from_str yielded a value the constructor rejects\"); let g = v.into_inner(); assert!(%s, \"from_str stored something other than the sanitized parsed value\"); }\n"
                "                    (Err(NParseError::Validate(e)), Err(f)) => { assert!(!valid); assert!(e == f, \"Validate does not carry the constructor's error\"); }\n"
                "                    (Err(NParseError::Parse(_)), _) => { assert!(false, \"inner parser accepts the text but from_str returned Parse\"); }\n"
                "                    _ => { assert!(false, \"from_str and try_new(parsed) disagree\"); } } }\n        }"
                % (parsed, r, s, d.valid_expr("s"), r, d.eq("g", "s")))
    return ("match %s {\n            Err(_) => { assert!(matches!(%s, Err(NParseError::Parse(_)))); }\n"
            "            Ok(x) => { %s match %s { Ok(v) => { let g = v.into_inner(); assert!(%s, \"from_str stored something other than the sanitized parsed value\"); } Err(_) => { assert!(false, \"from_str failed although the text parses and there are no validators\"); } } }\n        }"
            % (parsed, r, s, r, d.eq("g", "s")))


def int_harness(d, hname, nbytes, sabotage=False):
    ty = d.ty
    b = [d.setup(),
         "let len: usize = kani::any(); kani::assume(len <= %d);" % nbytes,
         "let bytes: [u8; %d] = kani::any();" % nbytes,
         "kani::assume(%s);" % " && ".join("bytes[%d] < 0x80" % i for i in range(nbytes)),
         "let text: &str = unsafe { core::str::from_utf8_unchecked(&bytes[..len]) };",
         "let r = <N as FromStr>::from_str(text);",
         "let parsed = text.parse::<%s>();" % ty]
    if not sabotage:
        b.append("kani::cover!(r.is_ok()); kani::cover!(parsed.is_err()); kani::cover!(len == %d && parsed.is_ok());" % nbytes)
        if d.has_validation():
            b.append("kani::cover!(matches!(r, Err(NParseError::Validate(_))));")
    b.append(result_match(d, "parsed", "r", sabotage))
    return "    #[kani::proof]\n    #[kani::unwind(%d)]\n    pub fn %s() {\n        %s\n    }\n" % (nbytes + 3, hname, "\n        ".join(b))


FLOAT_CATALOGUE = ["1.5", "1.5 ", " 1.5", "1.5\\n", "\\t2", "NaN", "nan", "inf", "-inf", "+infinity", "-0", "1e400", "-1e400", "1e-400", "", " ", "abc", "1_0", "0x10", "\\u{2003}3", "3\\u{a0}", "٣", "+", "1e", ".5", "5.",
                   # just above an f32 rounding midpoint: parsing it as f64 and narrowing rounds twice (1.0 instead of 1.0000001)
                   "1.00000005960464477539062500000001", "16777217.0000000000000001"]


def float_harness(d, hname, sabotage=False):
    ty = d.ty
    n = len(FLOAT_CATALOGUE)
    inner = ["let text: &str = cat[j];",
             "unsafe { P_CALLS = 0; OTHER_CALLS = 0; }",
             "let r = <N as FromStr>::from_str(text);",
             # under verification the inner parser is a nondeterministic stub that records the text it was handed;
             # natively (replay) it is the real core parser
             "let parsed: Result<%s, ()> = if is_symbolic() {\n                assert!(unsafe { OTHER_CALLS } == 0, \"the text was parsed as a different float type than the inner type\");\n                assert!(unsafe { P_CALLS } == 1 && unsafe { L_PTR } == text.as_ptr() as usize && unsafe { L_LEN } == text.len(), \"the inner parser was not handed exactly the input text (once)\");\n                if unsafe { P_OK } { Ok(unsafe { P_VAL }) } else { Err(()) }\n            } else { text.parse::<%s>().map_err(|_| ()) };" % (ty, ty)]
    if not sabotage:
        inner.append("kani::cover!(r.is_ok()); kani::cover!(matches!(r, Err(NParseError::Parse(_))));")
        if d.has_validation():
            inner.append("kani::cover!(matches!(r, Err(NParseError::Validate(_))));")
        if "finite" in d.validators:
            inner.append("if let Ok(v) = &r { let g: %s = **v; assert!(g.is_finite(), \"from_str yielded a non-finite value for a `finite` type\"); }" % ty)
    inner.append(result_match(d, "parsed", "r", sabotage))
    b = [d.setup(),
         "unsafe { P_OK = kani::any(); P_VAL = kani::any(); }",
         "let cat: [&'static str; %d] = [%s];" % (n, ", ".join('"%s"' % s for s in FLOAT_CATALOGUE)),
         "let i: usize = kani::any(); kani::assume(i < %d);" % n,
         # symbolic run: exactly the text cat[i]; native replay: the whole (finite, concrete) catalogue, so that a violation
         # that only some texts expose natively (e.g. double rounding) is confirmed whichever index the solver reported
         "let (from, to) = if is_symbolic() { (i, i + 1) } else { (0, %d) };" % n,
         "let mut j = from;",
         "while j < to {\n            %s\n            j += 1;\n        }" % "\n            ".join(inner)]
    other = "f64" if ty == "f32" else "f32"
    return ("    #[kani::proof]\n    #[kani::unwind(8)]\n    #[kani::stub(<%s as core::str::FromStr>::from_str, stub_parse)]\n    #[kani::stub(<%s as core::str::FromStr>::from_str, stub_parse_other)]\n    #[kani::stub(crate::support::is_symbolic, crate::support::is_symbolic_true)]\n    pub fn %s() {\n        %s\n    }\n"
            % (ty, other, hname, "\n        ".join(b)))


def float_prelude(ty):
    other = "f64" if ty == "f32" else "f32"
    return ("static mut OTHER_CALLS: u32 = 0;\n"
            "    /// the OTHER float type's parser must not be involved at all (e.g. parsing an f32 through f64 rounds twice)\n"
            "    fn stub_parse_other(_s: &str) -> Result<%s, core::num::ParseFloatError> { unsafe { OTHER_CALLS += 1; } Err(unsafe { core::mem::transmute::<u8, core::num::ParseFloatError>(0u8) }) }\n    " % other +
            "static mut P_OK: bool = false; static mut P_VAL: %s = 0.0; static mut L_PTR: usize = 0; static mut L_LEN: usize = 0; static mut P_CALLS: u32 = 0;\n"
            "    fn stub_parse(s: &str) -> Result<%s, core::num::ParseFloatError> {\n"
            "        unsafe { L_PTR = s.as_ptr() as usize; L_LEN = s.len(); P_CALLS += 1; }\n"
            "        if unsafe { P_OK } { Ok(unsafe { P_VAL }) } else { Err(unsafe { core::mem::transmute::<u8, core::num::ParseFloatError>(0u8) }) }\n    }" % (ty, ty))


OTHER = r'''
pub mod other_types {
    use super::*;
    use nutype::nutype;
    use core::str::FromStr;
    use crate::support::is_symbolic;
    static mut P_OK: bool = false; static mut P_VAL: i32 = 0; static mut P_ERR: u8 = 0; static mut L_PTR: usize = 0; static mut L_LEN: usize = 0; static mut P_CALLS: u32 = 0;
    static mut MASK: i32 = 0; static mut K: i32 = 0;
    #[derive(Debug, Clone, Copy, PartialEq)] pub struct P { pub x: i32 }
    #[derive(Debug, Clone, Copy, PartialEq)] pub struct PErr(pub u8);
    impl FromStr for P {
        type Err = PErr;
        /// under verification: any result, fixed before the call (a nondeterministic inner parser), recording its argument;
        /// natively: a one-byte parser, so that replays are deterministic
        fn from_str(s: &str) -> Result<P, PErr> {
            if is_symbolic() {
                unsafe { L_PTR = s.as_ptr() as usize; L_LEN = s.len(); P_CALLS += 1; }
                if unsafe { P_OK } { Ok(P { x: unsafe { P_VAL } }) } else { Err(PErr(unsafe { P_ERR })) }
            } else if s.len() == 1 { Ok(P { x: s.as_bytes()[0] as i32 }) } else { Err(PErr(s.len() as u8)) }
        }
    }
    fn okp(p: &P) -> bool { (p.x & unsafe { MASK }) != 0 }
    fn sanp(p: P) -> P { P { x: p.x ^ unsafe { K } } }
    #[nutype(sanitize(with = sanp), validate(predicate = okp), derive(Debug, FromStr))]
    pub struct NV(P);
    #[nutype(sanitize(with = sanp), derive(Debug, FromStr))]
    pub struct NN(P);
    #[nutype(sanitize(with = |t: T| t), validate(predicate = |t: &T| *t != T::default()), derive(Debug, FromStr))]
    pub struct G<T: Default + PartialEq>(T);

    pub trait Flip { fn flip(self) -> Self; }
    #[derive(Debug, Clone, Copy, PartialEq, Default)] pub struct Q2(pub i32);
    impl Flip for Q2 { fn flip(self) -> Q2 { Q2(self.0 ^ unsafe { K }) } }
    impl FromStr for Q2 { type Err = PErr; fn from_str(s: &str) -> Result<Q2, PErr> { P::from_str(s).map(|p| Q2(p.x)) } }
    #[nutype(sanitize(with = |t: T| t.flip()), derive(Debug, FromStr))]
    pub struct GS<T: Flip>(T);
    #[nutype(sanitize(with = |t: T| t.flip()), validate(predicate = |t: &T| *t != T::default()), derive(Debug, FromStr))]
    pub struct GV<T: Flip + Default + PartialEq>(T);

    static CAT: [&'static str; 6] = ["", "7", "7 ", " 7", "ab", "é"];
    fn text() -> &'static str {
        let i: usize = kani::any(); kani::assume(i < 6); CAT[i]
    }
    fn oracle(t: &str) -> Result<P, PErr> {
        if is_symbolic() {
            assert!(unsafe { P_CALLS } == 1 && unsafe { L_PTR } == t.as_ptr() as usize && unsafe { L_LEN } == t.len(), "the inner parser was not handed exactly the input text (once)");
            if unsafe { P_OK } { Ok(P { x: unsafe { P_VAL } }) } else { Err(PErr(unsafe { P_ERR })) }
        } else { P::from_str(t) }
    }
    fn init() { unsafe { P_OK = kani::any(); P_VAL = kani::any(); P_ERR = kani::any(); MASK = kani::any(); K = kani::any(); P_CALLS = 0; } }

    #[kani::proof]
    #[kani::unwind(8)]
    #[kani::stub(crate::support::is_symbolic, crate::support::is_symbolic_true)]
    pub fn c06_other_validated() {
        // under verification: one nondeterministic catalogue text; natively (replay): the whole catalogue, because which text the
        // real one-byte parser accepts is not what the nondeterministic parser of the counterexample accepted
        init(); let t0 = text();
        if is_symbolic() { c06_other_validated_body(t0); } else { for t in CAT.iter() { unsafe { P_CALLS = 0; } c06_other_validated_body(t); } }
    }
    fn c06_other_validated_body(t: &'static str) {
        
        let r = <NV as FromStr>::from_str(t);
        kani::cover!(r.is_ok()); kani::cover!(matches!(r, Err(NVParseError::Parse(_)))); kani::cover!(matches!(r, Err(NVParseError::Validate(_))));
        match oracle(t) {
            Err(pe) => { match r { Err(NVParseError::Parse(e)) => assert!(e == pe, "Parse does not carry the inner parser's error"), _ => assert!(false, "inner parser rejects but from_str did not return Parse") } }
            Ok(x) => { let s = sanp(x); let valid = okp(&s);
                match (r, NV::try_new(x)) { (Ok(v), Ok(_)) => { assert!(valid); assert!(v.into_inner() == s); }
                    (Err(NVParseError::Validate(e)), Err(f)) => { assert!(!valid); assert!(e == f); }
                    _ => assert!(false, "from_str and try_new(parsed) disagree") } }
        }
    }
    #[kani::proof]
    #[kani::unwind(8)]
    #[kani::stub(crate::support::is_symbolic, crate::support::is_symbolic_true)]
    pub fn c06_other_plain() {
        // under verification: one nondeterministic catalogue text; natively (replay): the whole catalogue, because which text the
        // real one-byte parser accepts is not what the nondeterministic parser of the counterexample accepted
        init(); let t0 = text();
        if is_symbolic() { c06_other_plain_body(t0); } else { for t in CAT.iter() { unsafe { P_CALLS = 0; } c06_other_plain_body(t); } }
    }
    fn c06_other_plain_body(t: &'static str) {
        
        let r = <NN as FromStr>::from_str(t);
        kani::cover!(r.is_ok()); kani::cover!(r.is_err());
        match oracle(t) {
            Err(pe) => { match r { Err(NNParseError::Parse(e)) => assert!(e == pe), _ => assert!(false, "inner parser rejects but from_str did not return Parse") } }
            Ok(x) => { match r { Ok(v) => assert!(v.into_inner() == sanp(x), "from_str stored something other than the sanitized parsed value"), Err(_) => assert!(false) } }
        }
    }
    #[kani::proof]
    #[kani::unwind(8)]
    #[kani::stub(crate::support::is_symbolic, crate::support::is_symbolic_true)]
    pub fn c06_generic_validated() {
        // under verification: one nondeterministic catalogue text; natively (replay): the whole catalogue, because which text the
        // real one-byte parser accepts is not what the nondeterministic parser of the counterexample accepted
        init(); let t0 = text();
        if is_symbolic() { c06_generic_validated_body(t0); } else { for t in CAT.iter() { unsafe { P_CALLS = 0; } c06_generic_validated_body(t); } }
    }
    fn c06_generic_validated_body(t: &'static str) {
        // generic newtype instantiated at a harness type whose FromStr is the nondeterministic parser above
        #[derive(Debug, Clone, Copy, PartialEq, Default)] pub struct Q(i32);
        impl FromStr for Q { type Err = PErr; fn from_str(s: &str) -> Result<Q, PErr> { P::from_str(s).map(|p| Q(p.x)) } }
        
        let r = <G<Q> as FromStr>::from_str(t);
        kani::cover!(r.is_ok()); kani::cover!(matches!(r, Err(GParseError::Parse(_)))); kani::cover!(matches!(r, Err(GParseError::Validate(_))));
        match oracle(t) {
            Err(pe) => { match r { Err(GParseError::Parse(e)) => assert!(e == pe), _ => assert!(false, "inner parser rejects but from_str did not return Parse") } }
            Ok(x) => { let valid = x.x != 0;
                match r { Ok(v) => { assert!(valid); assert!(v.into_inner() == Q(x.x)); } Err(GParseError::Validate(_)) => assert!(!valid), Err(GParseError::Parse(_)) => assert!(false) } }
        }
    }
    #[kani::proof]
    #[kani::unwind(8)]
    #[kani::stub(crate::support::is_symbolic, crate::support::is_symbolic_true)]
    pub fn c06_generic_sanitized() {
        // under verification: one nondeterministic catalogue text; natively (replay): the whole catalogue, because which text the
        // real one-byte parser accepts is not what the nondeterministic parser of the counterexample accepted
        init(); let t0 = text();
        if is_symbolic() { c06_generic_sanitized_body(t0); } else { for t in CAT.iter() { unsafe { P_CALLS = 0; } c06_generic_sanitized_body(t); } }
    }
    fn c06_generic_sanitized_body(t: &'static str) {
        // generic newtypes with a NON-identity sanitizer (xor with a symbolic K: applying it twice or not at all is visible)
        
        let r = <GS<Q2> as FromStr>::from_str(t);
        kani::cover!(r.is_ok()); kani::cover!(r.is_err());
        match oracle(t) {
            Err(pe) => { match r { Err(GSParseError::Parse(e)) => assert!(e == pe), _ => assert!(false, "inner parser rejects but from_str did not return Parse") } }
            Ok(x) => { match r { Ok(v) => assert!(v.into_inner() == Q2(x.x).flip(), "generic from_str stored something other than the sanitized parsed value"), Err(_) => assert!(false) } }
        }
        unsafe { P_CALLS = 0; }
        let r = <GV<Q2> as FromStr>::from_str(t);
        match oracle(t) {
            Err(pe) => { match r { Err(GVParseError::Parse(e)) => assert!(e == pe), _ => assert!(false, "inner parser rejects but from_str did not return Parse") } }
            Ok(x) => { let s = Q2(x.x).flip(); let valid = s != Q2::default();
                match r { Ok(v) => { assert!(valid, "generic from_str accepted what try_new rejects"); assert!(v.into_inner() == s, "generic from_str stored something other than the sanitized parsed value"); }
                          Err(GVParseError::Validate(_)) => assert!(!valid, "generic from_str rejected what try_new accepts"), Err(GVParseError::Parse(_)) => assert!(false) } }
        }
    }
}
'''


def generate(tier, seed):
    rng = random.Random(seed)
    plan = Plan("C06")
    src = ["// generated by props/c06.py\n"]
    first = True
    int_types = INT_TYPES if tier == "thorough" else ["i8", "u8", "i16", "u64"] + rng.sample(["u16", "i32", "u32", "i64", "i128", "u128", "isize", "usize"], 1)
    nbytes = 5 if tier == "thorough" else 4
    for ty in int_types:
        combos = [[], ["gt", "le", "pred"], ["ge", "lt"]] if tier == "quick" else [[], ["gt", "le", "pred"], ["ge", "lt"], ["pred"], ["le"], ["gt"]]
        for v in combos:
            d = NumDecl(ty, v, san="fn", derive=["Debug", "FromStr"])
            m = d.modname()
            hn = "c06_int_" + m
            hsrc = int_harness(d, hn, nbytes)
            plan.add(H(hn, "main", dict(d.describe(), text="all ASCII byte strings of length <= %d, real core::num parser" % nbytes)))
            if first and v:
                hsrc += int_harness(d, hn + "_must_fail", nbytes, sabotage=True)
                plan.add(H(hn + "_must_fail", "must_fail", {"sabotage": "oracle ignores the sanitizer"}))
                first = False
            src.append("pub mod %s {\n    use super::*;\n    use nutype::nutype;\n    %s\n    %s\n%s\n%s}\n" % (m, USE, d.prelude(), indent(d.attr()), hsrc))
    for ty in FLOAT_TYPES:
        combos = [[], ["gt", "le", "pred"], ["ge", "lt", "finite"], ["finite"]] if tier == "quick" else [list(c) + f for c in bound_combos() for f in ([], ["finite"], ["pred"])]
        seen = set()
        for v in combos:
            d = NumDecl(ty, v, san="fn", derive=["Debug", "FromStr", "Deref"])
            m = d.modname()
            if m in seen:
                continue
            seen.add(m)
            hn = "c06_float_" + m
            hsrc = float_harness(d, hn)
            plan.add(H(hn, "main", dict(d.describe(), text="catalogue of %d texts; inner parser = nondeterministic stub (any value incl. NaN/inf/-0/subnormal, or any error), recording the text it is handed" % len(FLOAT_CATALOGUE))))
            src.append("pub mod %s {\n    use super::*;\n    use nutype::nutype;\n    %s\n    %s\n    %s\n%s\n%s}\n" % (m, USE, d.prelude(), float_prelude(ty), indent(d.attr()), hsrc))
    src.append(OTHER)
    for hn, what in [("c06_other_validated", "struct P, sanitizer+predicate, nondeterministic inner FromStr"), ("c06_other_plain", "struct P, sanitizer only"),
                     ("c06_generic_validated", "generic G<T> at a harness type"),
                     ("c06_generic_sanitized", "generic GS<T> / GV<T> with a non-identity sanitizer (xor with symbolic K), with and without validation")]:
        plan.add(H(hn, "main", {"case": what}))
    plan.source = "\n".join(src)
    plan.kani_flags = ["-Z", "stubbing"]
    plan.bounds = {"integers": "every ASCII byte string of length <= %d through the real core::num parser (unwind %d); non-ASCII bytes are rejected by that parser on the first byte >= 0x80 like any non-digit" % (nbytes, nbytes + 3),
                   "floats/other": "composition decided for EVERY value or error a parse could yield (nondeterministic inner parser); which text yields which float is trusted core (dec2flt is out of reach)"}
    plan.assumptions = ["-Z stubbing: <f32|f64 as FromStr>::from_str replaced by a nondeterministic stub that records (ptr,len) of its argument; support::is_symbolic stubbed to true",
                        "natively (replay) the real parsers run", "custom fns range over symbolic families", "non-NaN float bounds"]
    return plan
