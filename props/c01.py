"""C01 — constructors compute exactly sanitize-then-validate (DESIGN.md §2 C01)."""
import random
from vlib.driver import Plan, H
from vlib.catalog import *
from props import strprops


def num_harness(d, hname, sabotage=False):
    ty = d.ty
    body = []
    body.append(d.setup())
    body.append("let raw: %s = kani::any();" % ty)
    body.append("let s: %s = %s;" % (ty, d.san_ref("raw")))
    if d.has_validation():
        valid = d.valid_expr("s")
        if sabotage:
            valid = "!(%s)" % valid
        body.append("let valid: bool = %s;" % valid)
        body.append("let r = %s::try_new(raw);" % d.name)
        if not sabotage:
            if getattr(d, "can_ok", True):
                body.append("kani::cover!(r.is_ok());")
            if getattr(d, "can_err", True):
                body.append("kani::cover!(r.is_err());")
        body.append("match r {\n            Ok(v) => { assert!(valid, \"accepted a value violating a validator\"); let got = v.into_inner(); assert!(%s, \"stored value differs from sanitized value\"); }\n            Err(_) => { assert!(!valid, \"rejected a value satisfying every validator\"); }\n        }" % d.eq("got", "s"))
    else:
        body.append("let got = %s::new(raw).into_inner();" % d.name)
        if sabotage:
            body.append("assert!(%s);" % d.eq("got", "raw"))
        else:
            body.append("kani::cover!(true);")
            body.append("assert!(%s, \"new() did not wrap exactly the sanitized value\");" % d.eq("got", "s"))
    return "    #[kani::proof]\n    pub fn %s() {\n        %s\n    }\n" % (hname, "\n        ".join(body))


def decl_module(d, harness_src):
    return "pub mod %s {\n    use super::*;\n    use nutype::nutype;\n    %s\n%s\n%s}\n" % (
        d.modname(), d.prelude(), indent(d.attr()), harness_src)


def numeric_catalogue(tier, rng):
    """list of (NumDecl, tags)"""
    decls = []
    all_types = INT_TYPES + FLOAT_TYPES
    core = ["i8", "u8", "i32", "u64", "f32", "f64"]
    extra = [t for t in all_types if t not in core]
    types = all_types if tier == "thorough" else core + rng.sample(extra, 2)
    for ty in types:
        fl = is_float(ty)
        for bc in bound_combos():
            fins = [False, True] if fl else [False]
            for fin in fins:
                base = list(bc) + (["finite"] if fin else [])
                if tier == "thorough":
                    variants = [(p, s) for p in (False, True) for s in (None, "fn")]
                else:
                    variants = [(True, "fn")] if base else [(False, "fn"), (False, None)]
                    if ty in ("i32", "f32") and base:
                        variants.append((False, None))
                for (p, s) in variants:
                    v = base + (["pred"] if p else [])
                    decls.append(NumDecl(ty, v, san=s))
    # closure spellings (the macro types closures by token surgery): on i32/f64 (+ all in thorough)
    for ty in (all_types if tier == "thorough" else ["i32", "f64", "u8"]):
        decls.append(NumDecl(ty, ["ge", "pred", "lt"], san="closure", pred_form="closure"))
        decls.append(NumDecl(ty, ["pred", "gt", "le"], san="closure_mut", pred_form="closure_typed"))
        decls.append(NumDecl(ty, ["le"], san="closure_typed"))
    # literal extremes (ValueOrExpr::Value path: the macro re-tokenises the literal)
    for ty in (INT_TYPES if tier == "thorough" else ["i8", "i32", "u64", "i128"] + rng.sample(["u8", "i16", "u16", "u32", "i64", "u128", "isize", "usize"], 2)):
        vals = int_literal_extremes(ty)
        pairs = [(vals[0], vals[-1]), (vals[1], vals[-2]), (vals[0], vals[0]), (vals[-1], vals[-1]), (0, 1)]
        if is_signed(ty):
            pairs += [(-1, 0), (-1, -1)]
        kinds = [("gt", "lt"), ("ge", "le"), ("gt", "le"), ("ge", "lt")] if tier == "thorough" else [("gt", "le"), ("ge", "lt")]
        n = 0
        for (a, b) in pairs:
            for (lk, uk) in kinds:
                n += 1
                if a == b and (lk, uk) == ("gt", "lt"):
                    continue   # refused by the macro at compile time (exclusive bounds that exclude each other: C08's subject)
                d = NumDecl(ty, [lk, uk], san="fn", bounds={"lo": str(a), "hi": str(b)}, modname="%s_lit%d_%s_%s" % (ty, n, lk, uk))
                d.can_ok = (a + (1 if lk == "gt" else 0)) <= (b - (1 if uk == "lt" else 0))
                d.can_err = not ((lk, uk) == ("ge", "le") and a == int_min(ty) and b == int_max(ty))   # the whole type is valid
                decls.append(d)
    flits = [("-0.0", "0.0"), ("0.0", "-0.0"), ("f32::NEG_INFINITY", "f32::INFINITY"), ("-1.5e-3", "1e3"), ("1.0e-45", "3.4028235e38"),
             ("-1", "1"), ("1.17549435e-38", "1.0"), ("-3.4028235e38", "-1.17549435e-38")]
    for ty in FLOAT_TYPES:
        n = 0
        for (a, b) in flits:
            a2, b2 = a.replace("f32", ty), b.replace("f32", ty)
            for (lk, uk) in ([("gt", "lt"), ("ge", "le"), ("gt", "le"), ("ge", "lt")] if tier == "thorough" else [("gt", "le"), ("ge", "lt")]):
                n += 1
                if a in ("-0.0", "0.0") and (lk, uk) == ("gt", "lt"):
                    continue   # `greater = 0.0, less = -0.0`: refused by the macro at compile time
                # NB: `f32::INFINITY` is an expression spelling, `-1` an integer literal for a float bound
                d = NumDecl(ty, [lk, uk, "finite"] if n % 2 else [lk, uk], san="fn", bounds={"lo": a2, "hi": b2}, modname="%s_lit%d_%s_%s" % (ty, n, lk, uk))
                d.can_ok = not (a in ("-0.0", "0.0") and (lk, uk) != ("ge", "le"))
                decls.append(d)
    return decls


def const_twins(tier):
    """const_fn must not change the outcome: twin declarations compared on the same symbolic input"""
    out = []
    for ty, lo, hi in ([("i32", "-7", "1000"), ("u8", "3", "200"), ("f64", "-2.5", "1.0e10")] if tier == "quick" else
                       [("i8", "-7", "100"), ("u8", "3", "200"), ("i32", "-7", "1000"), ("u64", "5", "18446744073709551615"), ("i128", "-170141183460469231731687303715884105728", "9"),
                        ("usize", "0", "10"), ("f32", "-2.5", "1.0e10"), ("f64", "-2.5", "1.0e10")]):
        vlists = [["gt", "le", "pred"], ["ge", "lt"], []] + ([["finite"], ["ge", "finite", "le"]] if is_float(ty) else [])
        for v in vlists:
            a = NumDecl(ty, v, san="fn", bounds="const", const_vals={"lo": lo, "hi": hi}, const_fn=True, name="A")
            b = NumDecl(ty, v, san="fn", bounds="const", const_vals={"lo": lo, "hi": hi}, const_fn=False, name="B")
            out.append((a, b))
    return out


def twin_module(a, b, idx):
    ty = a.ty
    mod = "twin_%s_%d" % (ty, idx)
    hname = "c01_" + mod
    # both use const user fns (identical family member) so results must agree exactly
    pre = a.prelude()
    body = ["let raw: %s = kani::any();" % ty]
    if a.has_validation():
        body.append("let ra = A::try_new(raw); let rb = B::try_new(raw);")
        body.append("kani::cover!(ra.is_ok()); kani::cover!(ra.is_err());")
        body.append("match (ra, rb) {\n            (Ok(x), Ok(y)) => { let (x, y) = (x.into_inner(), y.into_inner()); assert!(%s); }\n            (Err(e), Err(f)) => { assert!(e as u8 == f as u8, \"different error variant with const_fn\"); }\n            _ => { assert!(false, \"const_fn changed accept/reject\"); }\n        }" % a.eq("x", "y"))
        body.append("const CA: bool = A::try_new(%s).is_ok();" % a.const_vals["hi"])
        body.append("assert!(CA == B::try_new(%s).is_ok(), \"compile-time evaluation differs from run time\");" % a.const_vals["hi"])
    else:
        body.append("let (x, y) = (A::new(raw).into_inner(), B::new(raw).into_inner());")
        body.append("kani::cover!(true);")
        body.append("assert!(%s);" % a.eq("x", "y"))
    src = "pub mod %s {\n    use super::*;\n    use nutype::nutype;\n    %s\n%s\n%s\n    #[kani::proof]\n    pub fn %s() {\n        %s\n    }\n}\n" % (
        mod, pre, indent(a.attr()), indent(b.attr()), hname, "\n        ".join(body))
    return src, hname


OTHER = r"""
pub mod other_types {
    use super::*;
    use nutype::nutype;
    static mut MASK: i32 = 0; static mut K: i32 = 0;
    #[derive(Debug, Clone, Copy, PartialEq)]
    pub struct P { pub x: i32, pub y: i32 }
    fn okp(p: &P) -> bool { (p.x & unsafe { MASK }) != 0 && p.y >= p.x }
    fn sanp(p: P) -> P { P { x: p.x ^ unsafe { K }, y: p.y } }
    #[derive(Debug, Clone, PartialEq)] pub struct PErr(pub i32);
    fn vp(p: &P) -> Result<(), PErr> { if okp(p) { Ok(()) } else { Err(PErr(p.y)) } }

    #[nutype(sanitize(with = sanp), validate(predicate = okp), derive(Debug))] pub struct NP(P);
    #[nutype(sanitize(with = |p: P| sanp(p)), validate(predicate = |p: &P| okp(p)), derive(Debug))] pub struct NPC(P);
    #[nutype(sanitize(with = |p| sanp(p)), validate(with = vp, error = PErr), derive(Debug))] pub struct NPE(P);
    #[nutype(sanitize(with = sanp), derive(Debug))] pub struct NPS(P);
    #[nutype(sanitize(with = |t: T| t), validate(predicate = |t: &T| *t != T::default()), derive(Debug))] pub struct W<T: Default + PartialEq>(T);
    #[nutype(sanitize(with = |mut a: [u8; 2]| { a[0] |= 1; a }), validate(predicate = |a: &[u8; 2]| a[0] != a[1]), derive(Debug))] pub struct Arr([u8; 2]);
    #[nutype(sanitize(with = |o: Option<i16>| o.map(|v| v | 1)), validate(predicate = |o: &Option<i16>| o.is_some()), derive(Debug))] pub struct Opt(Option<i16>);
    #[nutype(validate(predicate = |r: &&'a str| !r.is_empty()), derive(Debug))] pub struct Ref<'a>(&'a str);
    #[nutype(const_fn, sanitize(with = csan), validate(predicate = cok), derive(Debug))] pub struct CP(P);
    const fn csan(p: P) -> P { P { x: p.x ^ 0x3, y: p.y } }
    const fn cok(p: &P) -> bool { (p.x & 0x5) != 0 }

    fn anyp() -> P { P { x: kani::any(), y: kani::any() } }

    #[kani::proof]
    pub fn c01_other_struct() {
        unsafe { MASK = kani::any(); K = kani::any(); }
        let raw = anyp(); let s = sanp(raw); let valid = okp(&s);
        kani::cover!(valid); kani::cover!(!valid);
        match NP::try_new(raw) { Ok(v) => { assert!(valid, "accepted a value violating the predicate"); assert!(v.into_inner() == s, "stored value is not the sanitized value"); } Err(_) => assert!(!valid, "rejected a valid value") }
        match NPC::try_new(raw) { Ok(v) => { assert!(valid); assert!(v.into_inner() == s); } Err(_) => assert!(!valid) }
        match NPE::try_new(raw) { Ok(v) => { assert!(valid); assert!(v.into_inner() == s); } Err(e) => { assert!(!valid); assert!(e == PErr(s.y), "custom error not returned unchanged"); } }
        assert!(NPS::new(raw).into_inner() == s, "new() did not wrap the sanitized value");
    }
    #[kani::proof]
    pub fn c01_other_generic_and_const() {
        let x: i64 = kani::any();
        match W::<i64>::try_new(x) { Ok(v) => { assert!(x != 0); assert!(v.into_inner() == x); } Err(_) => assert!(x == 0, "generic newtype rejected a valid value") }
        let t: (u8, bool) = kani::any();
        match W::<(u8, bool)>::try_new(t) { Ok(v) => { assert!(t != (0, false)); assert!(v.into_inner() == t); } Err(_) => assert!(t == (0, false)) }
        let raw = anyp(); let s = csan(raw);
        const C1: bool = CP::try_new(P { x: 3, y: 0 }).is_ok();
        assert!(C1 == cok(&csan(P { x: 3, y: 0 })), "compile-time evaluation differs from run time");
        match CP::try_new(raw) { Ok(v) => { assert!(cok(&s)); assert!(v.into_inner() == s); } Err(_) => assert!(!cok(&s)) }
    }
    #[kani::proof]
    #[kani::unwind(4)]
    pub fn c01_other_array_option_ref() {
        let a: [u8; 2] = kani::any(); let sa = [a[0] | 1, a[1]];
        match Arr::try_new(a) { Ok(v) => { assert!(sa[0] != sa[1]); assert!(v.into_inner() == sa); } Err(_) => assert!(sa[0] == sa[1]) }
        let o: Option<i16> = kani::any();
        match Opt::try_new(o) { Ok(v) => { assert!(o.is_some()); assert!(v.into_inner() == o.map(|x| x | 1)); } Err(_) => assert!(o.is_none()) }
        let pick: bool = kani::any(); let r: &str = if pick { "" } else { "ab" };
        match Ref::try_new(r) { Ok(v) => { assert!(!pick); assert!(v.into_inner().len() == 2); } Err(_) => assert!(pick) }
    }
}
"""


def generate(tier, seed):
    rng = random.Random(seed)
    plan = Plan("C01")
    src = ["// generated by props/c01.py — do not edit\n#![allow(unused)]\n"]
    seen = set()
    first = True
    for d in numeric_catalogue(tier, rng):
        m = d.modname()
        if m in seen:
            continue
        seen.add(m)
        hname = "c01_" + m
        hs = num_harness(d, hname)
        plan.add(H(hname, "main", d.describe()))
        if first and d.has_validation() and getattr(d, "can_ok", True):
            hs += num_harness(d, hname + "_must_fail", sabotage=True)
            plan.add(H(hname + "_must_fail", "must_fail", {"sabotage": "negated oracle"}))
            first = False
        src.append(decl_module(d, hs))
    for i, (a, b) in enumerate(const_twins(tier)):
        s, hn = twin_module(a, b, i)
        src.append(s)
        plan.add(H(hn, "main", {"twin": "const_fn vs plain", "type": a.ty, "validators": a.validators, "bounds": a.const_vals}))
    src.append(OTHER)
    for hn, what in [("c01_other_struct", "struct inner type: path / typed closure / untyped closure sanitizers, predicate and custom with+error validators"),
                     ("c01_other_generic_and_const", "generic W<T> at i64 and (u8,bool); const_fn over a struct incl. compile-time evaluation"),
                     ("c01_other_array_option_ref", "[u8;2], Option<i16>, &str inner types")]:
        plan.add(H(hn, "main", {"case": what}))
    src.append(strprops.gen_c01(plan, tier, rng))
    plan.source = "\n".join(src)
    plan.bounds = {"integers/floats": "loop-free: every value of the inner type and (expression-bound declarations) every bound value; no unwinding involved",
                   "catalogue": "validator-kind combinations, closure/path spellings and literal extremes are enumerated, not solved"}
    plan.assumptions = ["bound values of float declarations are non-NaN (a NaN bound denotes no number)",
                        "custom predicate/sanitizer range over the symbolic families pred(x)=(bits(x)&MASK)!=0, san(x)=bits(x)^K",
                        "Kani models the dev profile (overflow checks on)"]
    if "-Z" not in plan.kani_flags:
        plan.kani_flags = plan.kani_flags + ["-Z", "stubbing"]
    plan.pre_steps = plan.pre_steps + [strprops.model_validation_step]
    plan.assumptions = plan.assumptions + strprops.ASSUMPTIONS
    plan.bounds["strings"] = "skeleton inputs: concrete whitespace/underscore/non-ASCII characters + <= 3 symbolic printable-ASCII fillers, one harness per (declaration, skeleton); unwind 12-14"
    return plan
