"""C08 (claimed slice) — the macro's validation layer, decided for all configurations it ranges over (Engine M)."""
import json, os, re
from vlib.driver import Plan, H, VERIF

HARNESSES = [
    ("c08_string_trait_table", "String family: 22 derive traits x has_validation"),
    ("c08_integer_trait_table", "integer family: 22 derive traits x has_validation"),
    ("c08_float_trait_table", "float family: 22 derive traits x has_validation x has_finite (Eq/Ord <=> finite)"),
    ("c08_any_trait_table", "other/generic family: 22 derive traits x has_validation"),
    ("c08_from_xor_try_from", "derive lists of <= 3 traits: From together with TryFrom"),
] + [("c08_integer_bounds_%s" % p, "two literal bound validators (%s), all i32 values" % p) for p in
     ("gt_ge", "gt_lt", "gt_le", "ge_gt", "ge_lt", "ge_le", "lt_gt", "lt_ge", "lt_le", "le_gt", "le_ge", "le_lt")] + [
    ("c08_float_bounds_%s" % p, "two validators (%s), all non-NaN f64 values" % p) for p in
     ("gt_ge", "gt_lt", "gt_le", "ge_lt", "ge_le", "lt_le", "lt_gt", "le_ge", "fin_lt", "gt_fin")] + [
] + [("c08_duplicates_%s" % p, "list of 3 validators, kinds %s, symbolic values" % p) for p in
     ("adjacent_front", "adjacent_back", "non_adjacent", "non_adjacent_fin", "none", "none2")] + [
    ("c08_string_len_bounds", "len_char_min / len_char_max / not_empty pairs, all usize values"),
    ("c08_string_sanitizers", "pairs of trim / lowercase / uppercase sanitizers"),
]


# ---- spelling layer (token stream -> bound value), observed not solved --------------------------------------------------------------
# Engine M starts from parsed guards, so "the contradiction check sees the value the literal denotes" is outside its encoding. One
# `cargo check` pass (the mechanism of C02's accept probe) observes rustc's verdict on declarations whose literal bounds contradict
# each other in every literal spelling the parser knows, next to consistent controls in the same spellings.
def spelling_cases():
    C = []
    def add(sid, ty, attr, expect):
        C.append(dict(id=sid, ty=ty, attr=attr, ref="true", can_ok=True, can_err=True, note="", expect=expect))
    for (sid, ty, lo, hi) in [("i_plain", "i32", "10", "5"), ("i_us", "i32", "1_0", "5"), ("i_us_hi", "i32", "1_000", "9_9"), ("i_hex", "i32", "0x10", "0xF"),
                              ("i_bin_oct", "i32", "0b1000", "0o7"), ("i_suffix", "i32", "10i32", "5i32"), ("i_neg", "i32", "-5", "-10"), ("i_neg_sp", "i32", "- 5", "-10"),
                              ("i_u8", "u8", "200", "100"), ("i_i64", "i64", "9_000_000_000", "8_000_000_000"),
                              ("f_plain", "f64", "2.5", "1.5"), ("f_us", "f64", "2_000.5", "1_000.5"), ("f_us_frac", "f64", "1_0.0", "5.0"), ("f_exp", "f64", "1e3", "1e2"),
                              ("f_exp_cap", "f64", "2.5E2", "1.0e1"), ("f_trailing_dot", "f64", "5.", "4."), ("f_suffix", "f64", "10f64", "5f64"), ("f_int_lit", "f64", "10", "5"),
                              ("f_neg", "f64", "-1.5", "-2.5"), ("f_f32", "f32", "1e-2", "1e-3")]:
        # radix-prefixed and type-suffixed literals are handled by the macro like expressions (it does not evaluate them): the
        # property's second clause applies - refused at compile time OR the generated unit test fails
        exp = "reject_or_test" if sid in ("i_hex", "i_bin_oct", "i_suffix", "f_suffix") else "reject"
        add("contra_gt_lt_" + sid, ty, "validate(greater = %s, less = %s)" % (lo, hi), exp)
        add("contra_ge_le_" + sid, ty, "validate(greater_or_equal = %s, less_or_equal = %s)" % (lo, hi), exp)
        add("ok_ge_le_" + sid, ty, "validate(greater_or_equal = %s, less_or_equal = %s)" % (hi, lo), "accept")
    for (sid, mn, mx) in [("plain", "10", "5"), ("us", "1_0", "5"), ("hex", "0x10", "0xF"), ("suffix", "10usize", "5usize")]:
        add("contra_len_" + sid, "String", "validate(len_char_min = %s, len_char_max = %s)" % (mn, mx), "reject_or_test" if sid in ("hex", "suffix") else "reject")
        add("ok_len_" + sid, "String", "validate(len_char_min = %s, len_char_max = %s)" % (mx, mn), "accept")
    # bounds / defaults the macro cannot evaluate: the generated unit tests must do the refusing
    add("expr_contra_int", "i32", "validate(greater = K + 10, less = K)", "reject_or_test")
    add("expr_contra_float", "f64", "validate(greater_or_equal = KF * 2.0, less_or_equal = KF)", "reject_or_test")
    add("expr_contra_len", "String", "validate(len_char_min = UK + 3, len_char_max = UK)", "reject_or_test")
    add("expr_ok_int", "i32", "validate(greater = K - 10, less = K)", "accept")
    # one bound a literal, the other an expression: the macro cannot compare them either (K = 5, KF = 5.5, UK = 5)
    add("mixed_contra_int_expr_lo", "i32", "validate(greater_or_equal = K + 10, less_or_equal = 5)", "reject_or_test")
    add("mixed_contra_int_expr_hi", "i32", "validate(greater = 10, less = K)", "reject_or_test")
    add("mixed_contra_float", "f64", "validate(greater_or_equal = 7.5, less_or_equal = KF)", "reject_or_test")
    add("mixed_contra_len", "String", "validate(len_char_min = 9, len_char_max = UK)", "reject_or_test")
    add("mixed_ok_int", "i32", "validate(greater_or_equal = 1, less_or_equal = K)", "accept")
    add("mixed_ok_float", "f64", "validate(greater_or_equal = 1.5, less_or_equal = KF)", "accept")
    add("default_invalid_lit", "i32", "validate(greater = 0), default = -1, derive(Default)", "reject_or_test")
    add("default_invalid_expr", "i32", "validate(less = K), default = K + 1, derive(Default)", "reject_or_test")
    add("default_invalid_float", "f64", "validate(finite, less = KF), default = KF, derive(Default)", "reject_or_test")
    add("default_invalid_string", "String", 'sanitize(trim), validate(not_empty), default = "  ", derive(Default)', "reject_or_test")
    add("default_invalid_custom", "i32", "validate(with = vfn, error = MyErr), default = 100, derive(Default)", "reject_or_test")
    add("default_invalid_pred", "i32", "validate(predicate = |v| *v != K), default = K, derive(Default)", "reject_or_test")
    add("default_valid_custom", "i32", "validate(with = vfn, error = MyErr), default = 1, derive(Default)", "accept")
    add("default_valid_lit", "i32", "validate(greater = 0), default = 1, derive(Default)", "accept")
    add("default_missing", "i32", "validate(greater = 0), derive(Default)", "reject")
    # documented grammar: a bound may be any expression, also a (non-const) function call - with every derive that reads the bounds
    add("fn_bound_int", "i32", "validate(greater_or_equal = lo_fn(), less_or_equal = 100)", "accept")
    add("fn_bound_int_arbitrary", "i32", "validate(greater_or_equal = lo_fn(), less_or_equal = 100), derive(Debug, Arbitrary)", "accept")
    add("fn_bound_int_arbitrary_excl", "i32", "validate(greater = lo_fn(), less = 100), derive(Debug, Arbitrary)", "accept")
    add("fn_bound_float_arbitrary", "f64", "validate(greater_or_equal = lo_fn_f(), less = 100.0), derive(Debug, Arbitrary)", "accept")
    add("fn_bound_default", "i32", "validate(greater_or_equal = lo_fn()), default = lo_fn() + 1, derive(Debug, Default)", "accept")
    # regex literals are compiled at expansion time whatever else is declared
    for (sid, extra) in [("alone", ""), ("with_min", ", len_char_min = 1"), ("with_max", ", len_char_max = 9"), ("with_both", ", len_char_min = 1, len_char_max = 9"), ("after_ne", ", not_empty")]:
        add("bad_regex_" + sid, "String", 'validate(regex = "^[a-z+$"%s)' % extra, "reject")
        add("ok_regex_" + sid, "String", 'validate(regex = "^[a-z]+$"%s)' % extra, "accept")
    add("dup_sanitizer", "String", "sanitize(trim, trim)", "reject")
    add("lower_upper", "String", "sanitize(lowercase, uppercase)", "reject")
    add("eq_without_finite", "f64", "validate(greater_or_equal = 0.0, less_or_equal = 1.0), derive(PartialEq, Eq)", "reject")
    add("eq_with_finite", "f64", "validate(finite, greater_or_equal = 0.0, less_or_equal = 1.0), derive(PartialEq, Eq, PartialOrd, Ord)", "accept")
    return C


def spelling_probe_step(ctx):
    from props.c02 import probe_accepts
    cases = spelling_cases()
    alive, rejected, err = probe_accepts(ctx, cases, nutype_features='"regex", "arbitrary"', extra_deps='regex = "1"\narbitrary = "1"\n')
    if err:
        return [("inconclusive", "spelling-probe", {"what": err})]
    alive_ids = {c["id"] for c in alive}
    # second pass: the unit tests the macro generated into the probe crate (accepted declarations only)
    from props.c02 import module_src, PRELUDE
    from vlib.driver import sh
    pdir = os.path.join(ctx["wdir"], "accept_probe")
    open(os.path.join(pdir, "src", "lib.rs"), "w").write("#![allow(dead_code, unused)]\n" + PRELUDE + "\n" + "\n".join(module_src(c, False) for c in alive))
    rc, out = sh(["cargo", "test", "--offline", "--lib", "--no-fail-fast", "--target-dir", os.path.join(ctx["wdir"], "target-probe")], cwd=pdir, timeout=1800,
                 log=os.path.join(ctx["wdir"], "accept_probe.log"))
    tests = {}
    for mm in re.finditer(r"^test sp_(\w+?)::(\S+) \.\.\. (ok|FAILED)", out, re.M):
        tests.setdefault(mm.group(1), []).append((mm.group(2), mm.group(3)))
    if "test result:" not in out:
        return [("inconclusive", "spelling-probe", {"what": "the generated unit tests of the probe crate could not be run: " + out[-600:]})]
    res = []
    bad = []
    for c in cases:   # fold the generated-test outcome into the verdict
        if c["id"] in alive_ids:
            failed = [t for (t, o) in tests.get(c["id"], []) if o == "FAILED"]
            c["generated_tests"] = tests.get(c["id"], [])
            if c["expect"] == "reject_or_test":
                c["expect_eff"] = "accept+failing-generated-test"
                c["got_eff"] = "accept+failing-generated-test" if failed else "accept, generated tests pass (%d run)" % len(tests.get(c["id"], []))
            elif c["expect"] == "accept" and failed:
                c["expect_eff"], c["got_eff"] = "accept", "accept but generated test fails: " + failed[0]
    rdir = os.path.join(ctx["wdir"], "replay")
    os.makedirs(rdir, exist_ok=True)
    for c in cases:
        got = "accept" if c["id"] in alive_ids else "reject"
        exp = c["expect"]
        if exp == "reject_or_test":
            if got == "reject":
                continue
            got, exp = c["got_eff"], c["expect_eff"]
        elif "got_eff" in c:
            got, exp = c["got_eff"], c["expect_eff"]
        if got != exp:
            rp = os.path.join(rdir, "spelling_%s.json" % c["id"])
            what = "#[nutype(%s)] struct N(%s); observed: %s; the reference says: %s%s" % (
                c["attr"], c["ty"], got, exp, "" if got != "reject" else " (rustc: " + rejected.get(c["id"], "") + ")")
            json.dump({"property_id": "C08", "kind": "spelling-probe", "declaration": "#[nutype(%s)] pub struct N(%s);" % (c["attr"], c["ty"]), "expected": exp, "observed": got, "generated_tests": c.get("generated_tests"),
                       "rustc": rejected.get(c["id"]), "how_to_replay": "put the declaration into a crate depending on /repo/nutype (features regex; regex = \"1\") and run cargo check --offline, then cargo test --offline --lib"},
                      open(rp, "w"), indent=1)
            res.append(("violation", "spelling:" + c["id"], {"replay_path": rp, "what": what}))
            bad.append(c["id"])
    ctx["plan"].extra_evidence["spelling_probe"] = {"declarations": len(cases), "expected_reject": sum(1 for c in cases if c["expect"] == "reject"), "expected_reject_or_failing_generated_test": sum(1 for c in cases if c["expect"] == "reject_or_test"),
                                                    "generated_tests_run": sum(len(v) for v in tests.values()),
                                                    "expected_accept": sum(1 for c in cases if c["expect"] == "accept"), "mismatches": bad,
                                                    "note": "rustc's verdict observed with one cargo check pass, then the generated unit tests run once with cargo test (enumerated, not solved)"}
    if not bad:
        res.append(("ok", "spelling-probe", {"what": "%d contradictory / ill-formed declarations refused at compile time, %d refused or caught by their generated unit test, %d consistent controls accepted with passing generated tests" % (
            sum(1 for c in cases if c["expect"] == "reject"), sum(1 for c in cases if c["expect"] == "reject_or_test"), sum(1 for c in cases if c["expect"] == "accept"))}))
    return res


def generate(tier, seed):
    plan = Plan("C08", engine="macro_core")
    plan.pre_steps = [spelling_probe_step]
    plan.source = "// C08 harnesses live in c08_harness.rs (hand-written); this file only pulls them in\n#[path = \"c08_harness.rs\"]\npub mod c08_harness;\n"
    for hn, what in HARNESSES:
        plan.add(H(hn, "main", {"configuration space": what}))
    plan.add(H("c08_float_trait_table_must_fail", "must_fail", {"sabotage": "reference claims Eq/Ord need only some validation"}))
    plan.kani_flags = ["-Z", "stubbing"]
    plan.timeout_s = 900 if tier == "quick" else 3600
    plan.bounds = {"configurations": "symbolic trait selector (all 22), symbolic has_validation / has_finite, symbolic bound kinds and literal values (i32, non-NaN f64, usize); lists of <= 3 items (unwind 4-5)",
                   "spelling layer": "observed, not solved: one cargo check pass over contradictory/ill-formed declarations and consistent controls in every literal spelling of a finite catalogue (rustc's verdict)",
                   "not covered": "the rest of the parse layer on token streams (foreign attributes, unknown names, with/error pairing - see C02's refused layouts -, feature gates, name clashes) and the generated #[test]s"}
    plan.assumptions = ["-Z stubbing: syn::Error::new is replaced by a function that asserts the reference expects rejection and ends the path (rejection is observed as 'an error is being constructed'); alloc::fmt::format stubbed to an empty string where messages are built with format!",
                        "hooks: cfg(nutype_verif) wrappers expose private to_*_derive_trait / validate_validators / validate_sanitizers",
                        "inputs holding syn types are never dropped (ManuallyDrop / mem::forget): their drop glue is not part of the property",
                        "unconstrained cells (the reference gives no verdict): `From`+validation in the other/generic family (refused later by rustc), equal mixed-inclusive bounds, same-kind duplicates in validate_numeric_bounds"]
    return plan
