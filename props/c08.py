"""C08 (claimed slice) — the macro's validation layer, decided for all configurations it ranges over (Engine M)."""
import os
from vlib.driver import Plan, H, VERIF

HARNESSES = [
    ("c08_string_trait_table", "String family: 22 derive traits x has_validation"),
    ("c08_integer_trait_table", "integer family: 22 derive traits x has_validation"),
    ("c08_float_trait_table", "float family: 22 derive traits x has_validation x has_finite (Eq/Ord <=> finite)"),
    ("c08_any_trait_table", "other/generic family: 22 derive traits x has_validation"),
    ("c08_from_xor_try_from", "derive lists of <= 3 traits: From together with TryFrom"),
] + [("c08_integer_bounds_%s" % p, "two literal bound validators (%s), all i32 values" % p) for p in
     ("gt_ge", "gt_lt", "gt_le", "ge_gt", "ge_lt", "ge_le", "lt_gt", "lt_ge", "lt_le", "le_gt", "le_ge", "le_lt")] + [
    ("c08_float_bounds_%s" % p, "two validators (%s), all non-NaN f64 values" % p) for p in
     ("gt_ge", "gt_lt", "gt_le", "ge_lt", "ge_le", "lt_le", "lt_gt", "le_ge", "fin_lt", "gt_fin")] + [
] + [("c08_duplicates_%s" % p, "list of 3 validators, kinds %s, symbolic values" % p) for p in
     ("adjacent_front", "adjacent_back", "non_adjacent", "non_adjacent_fin", "none", "none2")] + [
    ("c08_string_len_bounds", "len_char_min / len_char_max / not_empty pairs, all usize values"),
    ("c08_string_sanitizers", "pairs of trim / lowercase / uppercase sanitizers"),
]


def generate(tier, seed):
    plan = Plan("C08", engine="macro_core")
    plan.source = "// C08 harnesses live in c08_harness.rs (hand-written); this file only pulls them in\n#[path = \"c08_harness.rs\"]\npub mod c08_harness;\n"
    for hn, what in HARNESSES:
        plan.add(H(hn, "main", {"configuration space": what}))
    plan.add(H("c08_float_trait_table_must_fail", "must_fail", {"sabotage": "reference claims Eq/Ord need only some validation"}))
    plan.kani_flags = ["-Z", "stubbing"]
    plan.timeout_s = 900 if tier == "quick" else 3600
    plan.bounds = {"configurations": "symbolic trait selector (all 22), symbolic has_validation / has_finite, symbolic bound kinds and literal values (i32, non-NaN f64, usize); lists of <= 3 items (unwind 4-5)",
                   "not covered": "everything decided in the parse layer on token streams (foreign attributes, unknown names, with/error pairing, feature gates, regex literals, name clashes) and the generated #[test]s"}
    plan.assumptions = ["-Z stubbing: syn::Error::new is replaced by a function that asserts the reference expects rejection and ends the path (rejection is observed as 'an error is being constructed'); alloc::fmt::format stubbed to an empty string where messages are built with format!",
                        "hooks: cfg(nutype_verif) wrappers expose private to_*_derive_trait / validate_validators / validate_sanitizers",
                        "inputs holding syn types are never dropped (ManuallyDrop / mem::forget): their drop glue is not part of the property",
                        "unconstrained cells (the reference gives no verdict): `From`+validation in the other/generic family (refused later by rustc), equal mixed-inclusive bounds, same-kind duplicates in validate_numeric_bounds"]
    return plan
