"""C16 — validation error messages state the violated rule truthfully.

1. native step: print to_string() of every error variant of a literal-bound catalogue (real macro from /repo) plus the
   FromStr / serde embeddings; 2. a fixed phrase table parses each text into (type name, relation, bound);
3. per variant a Kani harness decides, for ALL values, `stated relation holds  <=>  that validator accepts`."""
import json, os, random, re, shutil
from vlib.driver import Plan, H, sh, VERIF, REPO
from vlib.catalog import *

KW = {"gt": "greater", "ge": "greater_or_equal", "lt": "less", "le": "less_or_equal", "min": "len_char_min", "max": "len_char_max"}
VAR = {"gt": "GreaterViolated", "ge": "GreaterOrEqualViolated", "lt": "LessViolated", "le": "LessOrEqualViolated", "min": "LenCharMinViolated", "max": "LenCharMaxViolated"}

# phrase -> relation the sentence states, read literally
PHRASES = [
    (r"must be greater or equal to (\S+?)\.?$", ">="), (r"must be greater than or equal to (\S+?)\.?$", ">="), (r"must be greater than (\S+?)\.?$", ">"),
    (r"must be less or equal to (\S+?)\.?$", "<="), (r"must be less than or equal to (\S+?)\.?$", "<="), (r"must be less than (\S+?)\.?$", "<"),
    (r"length must be less or equal to (\S+) character", "<="), (r"length must be less than (\S+) character", "<"), (r"length must be at most (\S+) character", "<="),
    (r"length must be no more than (\S+) character", "<="), (r"length must not exceed (\S+) character", "<="),
    (r"length must be more than (\S+) character", ">"), (r"length must be greater than (\S+) character", ">"), (r"length must be at least (\S+) character", ">="),
    (r"length must be greater or equal to (\S+) character", ">="), (r"length must be more or equal to (\S+) character", ">="), (r"length must be no less than (\S+) character", ">="),
]


def catalogue(tier):
    out = []
    n = 0
    ints = [("i32", ["-7", "0", "9"]), ("u8", ["0", "200"]), ("i64", ["-9000000000", "5"])] if tier == "quick" else \
           [(t, (["-7", "0", "9"] if is_signed(t) else ["0", "9", "200"])) for t in INT_TYPES]
    for ty, vals in ints:
        for k in ("gt", "ge", "lt", "le"):
            for v in vals:
                n += 1
                out.append(dict(id="d%d" % n, name="Num%d" % n, ty=ty, kind=k, bound=v, fam="int"))
    for ty in FLOAT_TYPES:
        for k in ("gt", "ge", "lt", "le"):
            base = ["-2.5", "0.0", "12.34"] if tier == "quick" else ["-2.5", "0.0", "12.34", "1e10", "-0.001"]
            if ty == "f64":
                base = base + (["16777217.0"] if tier == "quick" else ["16777217.0", "0.123456789", "-1e300"])   # not representable in f32
            for v in base:
                n += 1
                out.append(dict(id="d%d" % n, name="Flt%d" % n, ty=ty, kind=k, bound=v, fam="float"))
    for k in ("min", "max"):
        for v in ["1", "3"]:
            n += 1
            out.append(dict(id="d%d" % n, name="Txt%d" % n, ty="String", kind=k, bound=v, fam="string"))
    return out


def pair_catalogue(tier):
    """two literal bounds on one type: whichever variant is returned, its message must not describe an admitted value as forbidden"""
    out = []
    n = 0
    for ty, lo, hi in ([("i32", "0", "100"), ("u8", "3", "200"), ("f64", "0.0", "100.0")] if tier == "quick" else
                       [("i8", "-5", "100"), ("u8", "3", "200"), ("i32", "0", "100"), ("u64", "1", "1000"), ("i128", "-7", "7"), ("f32", "0.0", "100.0"), ("f64", "0.0", "100.0")]):
        fl = ty in FLOAT_TYPES
        for (lk, uk) in ([("gt", "lt"), ("ge", "lt")] if fl else [("gt", "le"), ("ge", "lt"), ("gt", "lt"), ("ge", "le")]):
            n += 1
            out.append(dict(id="p%d" % n, name="Pair%d" % n, ty=ty, lk=lk, uk=uk, lo=lo, hi=hi, fam="float" if fl else "int"))
    return out


def pair_decl_src(c, derives=""):
    return "#[nutype(validate(%s = %s, %s = %s)%s)]\npub struct %s(%s);" % (KW[c["lk"]], c["lo"], KW[c["uk"]], c["hi"], derives, c["name"], c["ty"])


def decl_src(c, derives=""):
    return "#[nutype(validate(%s = %s)%s)]\npub struct %s(%s);" % (KW[c["kind"]], c["bound"], derives, c["name"], c["ty"])


def native_messages(ctx, cat):
    wdir = ctx["wdir"]
    pdir = os.path.join(wdir, "msgs")
    if os.path.exists(pdir):
        shutil.rmtree(pdir)
    os.makedirs(os.path.join(pdir, "src"))
    open(os.path.join(pdir, "Cargo.toml"), "w").write('[package]\nname = "msgs"\nversion = "0.0.0"\nedition = "2021"\n[dependencies]\nnutype = { path = "%s/nutype", features = ["serde"] }\nserde = "1"\nserde_json = "1"\n[workspace]\n' % REPO)
    shutil.copy(os.path.join(REPO, "Cargo.lock"), os.path.join(pdir, "Cargo.lock"))
    src = ["#![allow(dead_code)]\nuse nutype::nutype;\n"]
    body = []
    for c in cat:
        der = ", derive(Debug, Deserialize" + (", FromStr" if c["fam"] != "string" else "") + ")"
        src.append(decl_src(c, der))
        body.append('    println!("MSG\\t%s\\t{}", %sError::%s);' % (c["id"], c["name"], VAR[c["kind"]]))
        # an input that violates the single rule, to obtain the embedded texts
        if c["fam"] == "string":
            bad = '""' if c["kind"] == "min" else '"aaaaaaaa"'
            body.append('    println!("SERDE\\t%s\\t{}", serde_json::from_str::<%s>(&format!("\\"{}\\"", %s)).unwrap_err());' % (c["id"], c["name"], bad))
        else:
            fl = c["fam"] == "float"
            b = c["bound"]
            if c["kind"] in ("gt", "ge"):
                bad = ("(%s as %s) - ((%s as %s).abs() + 1.0)" % (b, c["ty"], b, c["ty"])) if fl else ("(%s as %s) - 1" % (b, c["ty"]))
                if c["ty"].startswith("u") and b == "0":
                    bad = None if c["kind"] == "ge" else "0"
            else:
                bad = ("(%s as %s) + ((%s as %s).abs() + 1.0)" % (b, c["ty"], b, c["ty"])) if fl else ("(%s as %s) + 1" % (b, c["ty"]))
            if bad is not None:
                body.append('    { let bad = %s; println!("SERDE\\t%s\\t{}", serde_json::from_str::<%s>(&format!("{:?}", bad)).unwrap_err());' % (bad, c["id"], c["name"]))
                body.append('      println!("FROMSTR\\t%s\\t{}", format!("{:?}", bad).parse::<%s>().unwrap_err()); }' % (c["id"], c["name"]))
    for c in pair_catalogue(ctx["tier"]):
        src.append(pair_decl_src(c, ", derive(Debug)"))
        body.append('    println!("MSG\\t%s:lo\\t{}", %sError::%s);' % (c["id"], c["name"], VAR[c["lk"]]))
        body.append('    println!("MSG\\t%s:hi\\t{}", %sError::%s);' % (c["id"], c["name"], VAR[c["uk"]]))
    src.append("fn main() {\n" + "\n".join(body) + "\n}\n")
    open(os.path.join(pdir, "src", "main.rs"), "w").write("\n".join(src))
    rc, out = sh(["cargo", "run", "--offline", "-q", "--target-dir", os.path.join(wdir, "target-msgs")], cwd=pdir, timeout=1800, log=os.path.join(wdir, "msgs.log"))
    if rc != 0:
        return None, out[-1500:]
    msgs = {}
    for ln in out.splitlines():
        p = ln.split("\t", 2)
        if len(p) == 3 and p[0] in ("MSG", "SERDE", "FROMSTR"):
            msgs.setdefault(p[1], {})[p[0]] = p[2]
    return msgs, None


def parse_text(text):
    for rx, rel in PHRASES:
        m = re.search(rx, text)
        if m:
            return rel, m.group(1)
    return None, None


def harness_src(c, rel, bound_txt, hname, sabotage=False, length=None):
    ty = c["ty"]
    if c["fam"] == "string":
        # one harness per concrete length 0..=N+2 (a heap String of symbolic length does not finish); text = `a`s and a 2-byte char
        n = int(c["bound"])
        text = ("\\u{e9}" + "a" * (length - 1)) if length > 0 else ""
        b = ["let len: usize = %d;" % length,
             "let text: &str = \"%s\";" % text,
             "let accepted = %s::try_new(text).is_ok();" % c["name"],
             "let stated: bool = len %s %s;" % (rel, bound_txt),
             "kani::cover!(true);",
             "assert!(accepted == stated, \"the length constraint stated in the message is not satisfied by exactly the accepted values\");"]
        unwind = n + 8
    else:
        fl = c["fam"] == "float"
        lit = bound_txt
        if fl and re.fullmatch(r"-?\d+", lit):
            lit += ".0"
        b = ["let x: %s = kani::any();" % ty] + (["kani::assume(!x.is_nan());"] if fl else []) + [
             "let accepted = %s::try_new(x).is_ok();" % c["name"],
             "let bound: %s = %s;" % (ty, lit),
             "let stated: bool = x %s bound;" % (rel if not sabotage else {"<": "<=", "<=": "<", ">": ">=", ">=": ">"}[rel]),
             ("kani::cover!(accepted);" if (ty.startswith("u") and c["bound"] == "0" and c["kind"] == "ge") else
              "kani::cover!(!accepted);" if (ty.startswith("u") and c["bound"] == "0" and c["kind"] == "lt") else "kani::cover!(accepted); kani::cover!(!accepted);"),
             "assert!(accepted == stated, \"the constraint stated in the message is not satisfied by exactly the accepted values\");"]
        unwind = 2
    return "    #[kani::proof]\n    #[kani::unwind(%d)]\n    pub fn %s() {\n        %s\n    }\n" % (unwind, hname, "\n        ".join(b))


def finding_key(c, rel):
    """known wording defects, keyed by (family, validator kind)"""
    if c["fam"] == "float" and c["kind"] == "le":
        return "C16-float-less_or_equal-says-less-than"
    return None


def generate(tier, seed):
    plan = Plan("C16")
    cat = catalogue(tier)

    def pre(ctx):
        res = []
        msgs, err = native_messages(ctx, cat)
        if err:
            return [("inconclusive", "native-messages", {"what": "could not build/run the message dump: " + err})]
        src = ["// generated by props/c16.py\nuse nutype::nutype;\n"]
        plan.harnesses[:] = []
        first = True
        rdir = os.path.join(ctx["wdir"], "replay")
        os.makedirs(rdir, exist_ok=True)
        samples = []
        for c in cat:
            m = msgs.get(c["id"], {})
            text = m.get("MSG")
            if text is None:
                res.append(("inconclusive", c["id"], {"what": "no message printed for %s" % decl_src(c)}))
                continue
            rel, btxt = parse_text(text)
            problems = []
            if c["name"] not in text:
                problems.append("does not name the newtype")
            if rel is None:
                problems.append("states no recognisable constraint")
            else:
                norm = lambda s: s.replace("_", "")
                try:
                    same = float(norm(btxt)) == float(norm(c["bound"]))
                except ValueError:
                    same = norm(btxt) == norm(c["bound"])
                if not same:
                    problems.append("does not state the declared bound (%s vs %s)" % (btxt, c["bound"]))
            for emb in ("SERDE", "FROMSTR"):
                if emb in m and text not in m[emb]:
                    problems.append("%s error does not embed the validation error text verbatim: %r" % (emb, m[emb]))
            if problems:
                rp = os.path.join(rdir, "msg_%s.json" % c["id"])
                json.dump({"property_id": "C16", "declaration": decl_src(c), "message": text, "embeddings": m, "problems": problems}, open(rp, "w"), indent=1)
                res.append(("violation", "message:" + c["id"], {"replay_path": rp, "what": "%s: %r %s" % (decl_src(c).split("\n")[0], text, "; ".join(problems))}))
                continue
            samples.append({"declaration": decl_src(c).split("\n")[0], "message": text, "stated": "%s %s" % (rel, btxt)})
            src.append("pub mod %s {\n    use super::*;\n%s\n" % (c["id"], indent(decl_src(c))))
            hn = "c16_%s_%s_%s" % (c["id"], c["ty"].lower(), c["kind"])
            fk = finding_key(c, rel)
            if c["fam"] == "string":
                for L in range(0, int(c["bound"]) + 3):
                    src.append(harness_src(c, rel, btxt, "%s_len%d" % (hn, L), length=L))
                    plan.add(H("%s_len%d" % (hn, L), "main", {"declaration": decl_src(c).split("\n")[0], "message": text, "stated_relation": rel, "stated_bound": btxt, "length": L}))
            else:
                src.append(harness_src(c, rel, btxt, hn))
                plan.add(H(hn, "finding" if fk else "main", {"declaration": decl_src(c).split("\n")[0], "message": text, "stated_relation": rel, "stated_bound": btxt}, finding=fk))
            if first and c["fam"] == "int":
                src.append(harness_src(c, rel, btxt, hn + "_must_fail", sabotage=True))
                plan.add(H(hn + "_must_fail", "must_fail", {"sabotage": "relation strictness flipped"}))
                first = False
            src.append("}\n")
        for c in pair_catalogue(ctx["tier"]):
            tl = msgs.get(c["id"] + ":lo", {}).get("MSG"); th = msgs.get(c["id"] + ":hi", {}).get("MSG")
            if tl is None or th is None:
                res.append(("inconclusive", c["id"], {"what": "no message printed for %s" % pair_decl_src(c)}))
                continue
            (rl, bl), (rh, bh) = parse_text(tl), parse_text(th)
            if rl is None or rh is None:
                continue  # unparsable texts are reported by the single-validator declarations
            ty = c["ty"]
            lit = lambda t: (t + ".0") if (c["fam"] == "float" and re.fullmatch(r"-?\d+", t)) else t
            b = ["let x: %s = kani::any();" % ty] + (["kani::assume(!x.is_nan());"] if c["fam"] == "float" else []) + [
                 "let said_lo: bool = x %s (%s as %s); let said_hi: bool = x %s (%s as %s);" % (rl, lit(bl), ty, rh, lit(bh), ty),
                 "kani::cover!(true);",
                 "match %s::try_new(x) {\n            Ok(_) => { assert!(said_lo && said_hi, \"an accepted value violates a constraint stated in the messages\"); }\n"
                 "            Err(%sError::%s) => { assert!(!said_lo, \"the value was refused with a message whose stated constraint it satisfies\"); }\n"
                 "            Err(%sError::%s) => { assert!(!said_hi, \"the value was refused with a message whose stated constraint it satisfies\"); }\n        }" % (c["name"], c["name"], VAR[c["lk"]], c["name"], VAR[c["uk"]])]
            hn = "c16_%s_%s_%s_%s" % (c["id"], ty, c["lk"], c["uk"])
            src.append("pub mod %s {\n    use super::*;\n%s\n    #[kani::proof]\n    pub fn %s() {\n        %s\n    }\n}\n" % (c["id"], indent(pair_decl_src(c)), hn, "\n        ".join(b)))
            plan.add(H(hn, "main", {"declaration": pair_decl_src(c).split("\n")[0], "messages": [tl, th]}))
        open(os.path.join(ctx["crate"], "src", "gen_c16.rs"), "w").write("\n".join(src))
        plan.extra_evidence["messages_parsed"] = samples[:60]
        res.append(("ok", "native-messages", {"what": "%d messages dumped, %d parsed into (name, relation, bound)" % (len(msgs), len(samples))}))
        return res

    plan.pre_steps = [pre]
    plan.source = "// placeholder\n"
    plan.bounds = {"values": "all values of the inner type (non-NaN floats); strings: every length 0..=N+2, one harness per concrete length (text = one 2-byte char + `a`s)",
                   "declarations": "literal bounds of both signs and magnitudes, every bound validator kind, int/float/string families (catalogue)"}
    plan.assumptions = ["a fixed English phrase table maps the sentence to the relation it states; an unparsable sentence is itself reported",
                        "serde / FromStr embedding is compared natively on concrete texts (string equality, no quantifier)",
                        "formatting of expression-valued bounds ({:#?} of a runtime value) is outside reach (flt2dec under the solver)"]
    return plan
