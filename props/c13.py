"""C13 — views and comparison traits are transparent to the inner value (numeric + other/generic types; strings in the string section)."""
import random
from vlib.driver import Plan, H
from vlib.catalog import *
from props import strprops

USE = "use crate::support::rec::RecHasher;\n    use core::hash::Hash;\n    use core::borrow::Borrow;\n    use core::cmp::Ordering;"


def views_harness(d, hname, has_ord, has_hash, sabotage=False):
    ty = d.ty
    eqi = (lambda a, b: "%s.to_bits() == %s.to_bits()" % (a, b)) if is_float(ty) else (lambda a, b: "%s == %s" % (a, b))
    b = [d.setup(), "let (a, b): (%s, %s) = (kani::any(), kani::any());" % (ty, ty)]
    if d.has_validation():
        b.append("let (v, w) = match (N::try_new(a), N::try_new(b)) { (Ok(x), Ok(y)) => (x, y), _ => return };")
    else:
        b.append("let (v, w) = (N::new(a), N::new(b));")
    b.append("let (iv, iw): (%s, %s) = (%s, %s);" % (ty, ty, d.san_ref("a"), d.san_ref("b")))
    b.append("kani::cover!(true, \"two obtainable values\");")
    b.append("let r1: &%s = v.as_ref(); assert!(%s, \"AsRef does not expose the stored value\");" % (ty, eqi("(*r1)", "iv")))
    b.append("let r2: &%s = &*v; assert!(%s, \"Deref does not expose the stored value\");" % (ty, eqi("(*r2)", "iv")))
    b.append("let r3: &%s = Borrow::<%s>::borrow(&v); assert!(%s, \"Borrow does not expose the stored value\");" % (ty, ty, eqi("(*r3)", "iv")))
    b.append("let c = v.clone(); assert!(%s, \"Clone changed the value\");" % eqi("c.into_inner()", "iv"))
    b.append("let cp = v; let into: %s = cp.into(); assert!(%s, \"Into does not yield the stored value\");" % (ty, eqi("into", "iv" if not sabotage else "a")))
    b.append("assert!(%s, \"Copy left a different value behind\");" % eqi("v.into_inner()", "iv"))
    b.append("assert!((v == w) == (iv == iw), \"PartialEq differs from the inner ==\");")
    b.append("assert!((v != w) == (iv != iw));")
    b.append("assert!(v.partial_cmp(&w) == iv.partial_cmp(&iw), \"PartialOrd differs from the inner order\");")
    b.append("assert!((v < w) == (iv < iw) && (v <= w) == (iv <= iw) && (v > w) == (iv > iw) && (v >= w) == (iv >= iw));")
    if has_ord:
        if is_float(ty):
            b.append("assert!(Some(v.cmp(&w)) == iv.partial_cmp(&iw), \"Ord differs from the inner order\");")
        else:
            b.append("assert!(v.cmp(&w) == iv.cmp(&iw), \"Ord differs from the inner order\");")
    if has_hash:
        b.append("let mut h1 = RecHasher::new(); let mut h2 = RecHasher::new(); let mut h3 = RecHasher::new();")
        b.append("v.hash(&mut h1); iv.hash(&mut h2); Borrow::<%s>::borrow(&v).hash(&mut h3);" % ty)
        b.append("assert!(h1 == h2, \"Hash feeds the hasher differently from the inner value\"); assert!(h1 == h3, \"Hash differs from the hash of the borrowed form\"); assert!(!h1.overflow && h1.n > 0);")
    return "    #[kani::proof]\n    #[kani::unwind(10)]\n    pub fn %s() {\n        %s\n    }\n" % (hname, "\n        ".join(b))


OTHER = r'''
pub mod other_types {
    use super::*;
    use nutype::nutype;
    use crate::support::rec::RecHasher;
    use core::hash::Hash;
    use core::borrow::Borrow;
    use core::fmt::{self, Display, Write};

    // ---- an inner type with its own Display that records how the Formatter it received was configured
    pub static mut SEEN: (u8, Option<usize>, Option<usize>, bool, bool, bool, char, i32) = (0, None, None, false, false, false, ' ', 0);
    #[derive(Debug, Clone, Copy, PartialEq, Eq, PartialOrd, Ord, Hash)]
    pub struct P { pub x: i32, pub y: i8 }
    impl Display for P {
        fn fmt(&self, f: &mut fmt::Formatter<'_>) -> fmt::Result {
            unsafe { SEEN = (SEEN.0 + 1, f.width(), f.precision(), f.sign_plus(), f.alternate(), f.sign_aware_zero_pad(), f.fill(), self.x); }
            f.write_str(if self.y < 0 { "neg" } else { "pos" })
        }
    }
    pub struct Sink { pub buf: [u8; 8], pub n: usize }
    impl Write for Sink { fn write_str(&mut self, s: &str) -> fmt::Result { let b = s.as_bytes(); let mut i = 0; while i < b.len() { if self.n < 8 { self.buf[self.n] = b[i]; self.n += 1; } i += 1; } Ok(()) } }

    static mut MASK: i32 = 0; static mut K: i32 = 0;
    fn okp(p: &P) -> bool { (p.x & unsafe { MASK }) != 0 }
    fn sanp(p: P) -> P { P { x: p.x ^ unsafe { K }, y: p.y } }

    #[nutype(sanitize(with = sanp), validate(predicate = okp), derive(Debug, Clone, Copy, PartialEq, Eq, PartialOrd, Ord, Hash, AsRef, Deref, Borrow, Into, Display))]
    pub struct NP(P);

    #[nutype(sanitize(with = |t: T| t), validate(predicate = |t: &T| *t != T::default()), derive(Debug, Clone, PartialEq, Eq, PartialOrd, Ord, Hash, AsRef, Deref, Borrow, Display))]
    pub struct W<T: Default + PartialEq + Clone>(T);

    #[nutype(derive(Debug, Clone, PartialEq, AsRef, Deref, IntoIterator))]
    pub struct Arr([u8; 2]);
    #[nutype(validate(predicate = |o: &Option<u8>| o.is_some()), derive(Debug, Clone, PartialEq, AsRef, IntoIterator))]
    pub struct Opt(Option<u8>);

    // derive-set interactions on an inner type whose == is not reflexive (contains a float)
    #[nutype(derive(Debug, Clone, Copy, PartialEq, PartialOrd))] pub struct FP((f32, u8));
    #[nutype(derive(Debug, Clone, Copy, PartialEq))] pub struct FQ((f32, u8));
    #[nutype(validate(predicate = |t: &(f64, i8)| t.1 >= 0), derive(Debug, Clone, Copy, PartialEq, PartialOrd, AsRef))] pub struct FR((f64, i8));

    #[kani::proof]
    #[kani::unwind(10)]
    pub fn c13_other_float_inner_same_object() {
        let x: f32 = kani::any(); let k: u8 = kani::any();
        let v = FP::new((x, k)); let w = FQ::new((x, k));
        kani::cover!(x.is_nan());
        // comparing a value WITH ITSELF must still give the inner answer (false for NaN)
        assert!((v == v) == ((x, k) == (x, k)), "PartialEq of the same object differs from the inner ==");
        assert!((w == w) == ((x, k) == (x, k)));
        assert!(v.partial_cmp(&v) == (x, k).partial_cmp(&(x, k)), "PartialOrd of the same object differs from the inner order");
        let r = &v; assert!((*r == v) == ((x, k) == (x, k)));
        let y: f64 = kani::any(); let j: i8 = kani::any();
        if let Ok(a) = FR::try_new((y, j)) { assert!((a == a) == ((y, j) == (y, j))); assert!((a != a) == ((y, j) != (y, j))); }
    }

    fn anyp() -> P { P { x: kani::any(), y: kani::any() } }

    #[kani::proof]
    #[kani::unwind(10)]
    pub fn c13_other_views() {
        unsafe { MASK = kani::any(); K = kani::any(); }
        let (a, b) = (anyp(), anyp());
        let (v, w) = match (NP::try_new(a), NP::try_new(b)) { (Ok(x), Ok(y)) => (x, y), _ => return };
        let (iv, iw) = (sanp(a), sanp(b));
        kani::cover!(true, "two obtainable values");
        assert!(*v.as_ref() == iv && *v == iv && *Borrow::<P>::borrow(&v) == iv && v.clone().into_inner() == iv);
        let p: P = v.into(); assert!(p == iv, "Into does not yield the stored value");
        assert!((v == w) == (iv == iw)); assert!(v.partial_cmp(&w) == iv.partial_cmp(&iw)); assert!(v.cmp(&w) == iv.cmp(&iw), "Ord differs from inner order");
        let mut h1 = RecHasher::new(); let mut h2 = RecHasher::new(); let mut h3 = RecHasher::new();
        v.hash(&mut h1); iv.hash(&mut h2); Borrow::<P>::borrow(&v).hash(&mut h3);
        assert!(h1 == h2 && h1 == h3 && !h1.overflow && h1.n == 2, "Hash differs from the inner / borrowed hash");
    }

    #[kani::proof]
    #[kani::unwind(10)]
    pub fn c13_generic_views() {
        let (a, b): (i16, i16) = (kani::any(), kani::any());
        let (v, w) = match (W::<i16>::try_new(a), W::<i16>::try_new(b)) { (Ok(x), Ok(y)) => (x, y), _ => return };
        kani::cover!(true, "two obtainable values");
        assert!(*v.as_ref() == a && *v == a && *Borrow::<i16>::borrow(&v) == a && v.clone().into_inner() == a);
        assert!((v == w) == (a == b)); assert!(v.partial_cmp(&w) == a.partial_cmp(&b)); assert!(v.cmp(&w) == a.cmp(&b));
        let mut h1 = RecHasher::new(); let mut h2 = RecHasher::new();
        v.hash(&mut h1); a.hash(&mut h2);
        assert!(h1 == h2 && h1.n == 1);
        let i: i16 = v.into_inner(); assert!(i == a);
    }

    macro_rules! display_case { ($name:ident, $fmt:literal) => {
        #[kani::proof]
        #[kani::unwind(10)]
        pub fn $name() {
            unsafe { MASK = kani::any(); K = kani::any(); }
            let a = anyp();
            let v = match NP::try_new(a) { Ok(x) => x, _ => return };
            let iv = sanp(a);
            let mut s1 = Sink { buf: [0; 8], n: 0 }; let mut s2 = Sink { buf: [0; 8], n: 0 };
            unsafe { SEEN.0 = 0; }
            let r1 = write!(s1, $fmt, v);
            let seen1 = unsafe { SEEN };
            unsafe { SEEN.0 = 0; }
            let r2 = write!(s2, $fmt, iv);
            let seen2 = unsafe { SEEN };
            kani::cover!(r1.is_ok());
            assert!(r1.is_ok() == r2.is_ok());
            assert!(seen1 == seen2, "Display did not hand the caller's Formatter (width/precision/flags) and value to the inner Display");
            assert!(seen1.0 == 1);
            assert!(s1.n == s2.n && s1.buf == s2.buf, "Display prints something other than the inner value prints");
        }
    } }
    display_case!(c13_display_plain, "{}");
    display_case!(c13_display_width_prec, "{:>7.3}");
    display_case!(c13_display_flags, "{:+#09}");

    #[kani::proof]
    #[kani::unwind(6)]
    pub fn c13_into_iter() {
        let a: [u8; 2] = kani::any();
        let v = Arr::new(a);
        let mut it = (&v).into_iter();
        assert!(it.next() == Some(&a[0]) && it.next() == Some(&a[1]) && it.next().is_none(), "by-ref iteration differs from the inner array");
        let mut it2 = v.into_iter();
        assert!(it2.next() == Some(a[0]) && it2.next() == Some(a[1]) && it2.next().is_none(), "by-value iteration differs from the inner array");
        let o: Option<u8> = kani::any();
        if let Ok(ov) = Opt::try_new(o) {
            kani::cover!(true);
            let mut i3 = (&ov).into_iter(); assert!(i3.next() == o.as_ref() && i3.next().is_none());
            let mut i4 = ov.into_iter(); assert!(i4.next() == o && i4.next().is_none());
        }
    }
}
'''


def generate(tier, seed):
    rng = random.Random(seed)
    plan = Plan("C13")
    src = ["// generated by props/c13.py\n"]
    all_types = INT_TYPES + FLOAT_TYPES
    core = ["i8", "u16", "i32", "u64", "i128", "f32", "f64"]
    types = all_types if tier == "thorough" else core + rng.sample([t for t in all_types if t not in core], 1)
    first = True
    for ty in types:
        fl = is_float(ty)
        combos = list(bound_combos()) if tier == "thorough" else [[], ["gt", "le"], ["ge"]]
        for bc in combos:
            for fin in ([False, True] if fl else [False]):
                v = list(bc) + (["finite"] if fin else [])
                has_ord = (not fl) or fin
                has_hash = not fl
                derive = ["Debug", "Clone", "Copy", "PartialEq", "PartialOrd", "AsRef", "Deref", "Borrow", "Into"]
                if has_ord:
                    derive += ["Eq", "Ord"]
                if has_hash:
                    derive += ["Hash"]
                d = NumDecl(ty, v, san="fn", derive=derive)
                m = d.modname()
                hn = "c13_views_" + m
                hsrc = views_harness(d, hn, has_ord, has_hash)
                plan.add(H(hn, "main", d.describe()))
                if first:
                    hsrc += views_harness(d, hn + "_must_fail", has_ord, has_hash, sabotage=True)
                    plan.add(H(hn + "_must_fail", "must_fail", {"sabotage": "expects Into to yield the raw (unsanitized) value"}))
                    first = False
                src.append("pub mod %s {\n    use super::*;\n    use nutype::nutype;\n    %s\n    %s\n%s\n%s}\n" % (m, USE, d.prelude(), indent(d.attr()), hsrc))
    src.append(OTHER)
    for hn, what in [("c13_other_views", "struct P{x:i32,y:i8}: views, comparisons, Hash vs inner/borrowed"), ("c13_generic_views", "generic W<T> at T=i16"), ("c13_other_float_inner_same_object", "tuple inner types containing a float: ==/partial_cmp of a value with itself (NaN) under several derive sets"),
                     ("c13_display_plain", "Display `{}` vs inner Display (recording Formatter options + sink)"), ("c13_display_width_prec", "Display `{:>7.3}`"),
                     ("c13_display_flags", "Display `{:+#09}`"), ("c13_into_iter", "IntoIterator by value / by ref on [u8;2] and Option<u8>")]:
        plan.add(H(hn, "main", {"case": what}))
    src.append(strprops.gen_c13(plan, tier, rng))
    plan.source = "\n".join(src)
    plan.bounds = {"numeric": "all pairs of inner values and all bound values; hash compared as the sequence of Hasher::write_* calls (equal sequences => equal hashes for every hasher)",
                   "Display": "checked on an inner type whose Display the harness defines (records Formatter width/precision/flags/fill and the value) for 3 format specs; integer/float Display run core::fmt::num / flt2dec and are outside reach"}
    plan.assumptions = ["custom fns range over symbolic families", "non-NaN float bounds"]
    if "-Z" not in plan.kani_flags:
        plan.kani_flags = plan.kani_flags + ["-Z", "stubbing"]
    plan.pre_steps = plan.pre_steps + [strprops.model_validation_step]
    plan.assumptions = plan.assumptions + strprops.ASSUMPTIONS
    plan.bounds["strings"] = "skeleton inputs: concrete whitespace/underscore/non-ASCII characters + <= 3 symbolic printable-ASCII fillers, one harness per (declaration, skeleton); unwind 12-14"
    return plan
