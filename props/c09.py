"""C09 — derived Arbitrary is total and yields only valid values, for every byte input."""
import random
from vlib.driver import Plan, H
from vlib.catalog import *
from props.c14 import range_setup, EXPR_SPELLINGS, expr_decl
from props import strprops

USE = "use arbitrary::{Arbitrary, Unstructured};"


def int_harness(d, hname, window=None, sabotage=False, nbuf=None):
    ty = d.ty
    size = BITS[ty] // 8
    nbuf = nbuf or min(2 * size, size + 2)
    uty = "u" + ty[1:] if is_signed(ty) else ty
    b = [d.setup()] + range_setup(d)
    if window:
        b.append("kani::assume((mx as %s).wrapping_sub(mn as %s) <= %d);  // window: int_in_range takes a symbolic %d-bit remainder" % (uty, uty, window, BITS[ty]))
    b += ["let data: [u8; %d] = kani::any(); let len: usize = kani::any(); kani::assume(len <= %d);" % (nbuf, nbuf),
          "let mut u = Unstructured::new(&data[..len]);",
          "let r = <N as Arbitrary>::arbitrary(&mut u);",
          "kani::cover!(r.is_ok()); kani::cover!(len == 0);",
          "match r { Ok(v) => { let g = v.into_inner(); assert!(%s, \"arbitrary returned a value violating a validator\"); } Err(_) => {} }" % ("mn <= g && g <= mx" if not sabotage else "mn < g")]
    return "    #[kani::proof]\n    #[kani::unwind(%d)]\n    pub fn %s() {\n        %s\n    }\n" % (size + 2, hname, "\n        ".join(b))


# ---------------------------------------------------------------------------------------------- floats
DELTA = {"f32": "0.000_002", "f64": "0.000_000_000_000_004"}


def float_region(d, region):
    """assumptions on the symbolic bounds (l, h) selecting the region of bound values explored.
    'benign': where the generator's fixed correction delta is effective and the scaling cannot leave the interval
    others: the regions of the known findings (see known_findings.json)"""
    ty = d.ty
    lo, up = d.lower(), d.upper()
    a = []
    if lo:
        a.append("l.is_finite()")
    if up:
        a.append("h.is_finite()")
    if lo and up:
        a.append("l <= h" if (lo == "ge" and up == "le") else "l < h")
    if region == "fixed":
        return []
    if region == "benign":
        # magnitude small enough that x +/- delta is a different float (ulp(16) < delta), range wide enough that the
        # correction cannot cross the other bound, and (inclusive upper) the scaled end point does not round above it
        if lo:
            a.append("l >= -16.0 && l <= 16.0")
        if up:
            a.append("h >= -16.0 && h <= 16.0")
        if lo and up:
            a.append("h - l >= 0.001")
            a.append("l + (h - l).abs() <= h")
    elif region == "delta_vanishes":      # |bound| >= 64: x + delta == x
        if lo and not up:
            a.append("l >= 64.0 && l <= 1.0e6")
        elif up and not lo:
            a.append("h <= -64.0 && h >= -1.0e6")
        else:
            a.append("l >= 64.0 && h <= 1.0e6 && h - l >= 1.0")
    elif region == "narrow":              # range narrower than the correction delta
        a.append("l >= 0.0 && h <= 1.0 && h - l < %s" % DELTA[ty])
    elif region == "round_above":         # inclusive upper bound: lo + 1.0*range rounds above hi
        a.append("l >= -16.0 && h <= 16.0 && h - l >= 0.001 && l + (h - l).abs() > h")
    elif region == "range_overflow":
        a.append("(h - l).is_infinite()")
    elif region == "finite_overflow":     # one-sided + finite: |basic| + bound overflows to infinity
        a.append("l >= 1.0e38" if lo else "h <= -1.0e38") if ty == "f32" else a.append("l >= 1.0e308" if lo else "h <= -1.0e308")
    return a


SPECIAL_DRAWS = {"f32": [("inf", "0x7f80_0000u32"), ("neginf", "0xff80_0000u32"), ("nan", "0x7fc0_0000u32"), ("nan_ones", "0xffff_ffffu32")],
                 "f64": [("inf", "0x7ff0_0000_0000_0000u64"), ("neginf", "0xfff0_0000_0000_0000u64"), ("nan", "0x7ff8_0000_0000_0000u64"), ("nan_ones", "0xffff_ffff_ffff_ffffu64")]}


def float_special_draw_harness(d, hname, bits):
    """first drawn float = a CONCRETE non-finite pattern (the deciding inputs for the NaN/inf re-draw logic), remaining bytes
    symbolic; the generator's byte-mangling loop then runs on concrete bytes (it ends after 2 iterations), unwind 8"""
    ty = d.ty
    size = BITS[ty] // 8
    b = [d.setup()]
    for a in float_region(d, "benign"):
        b.append("kani::assume(%s);" % a)
    b += ["let first: [u8; %d] = (%s).to_le_bytes(); let rest: [u8; %d] = kani::any();" % (size, bits, size),
          "let mut data = [0u8; %d]; let mut i = 0; while i < %d { data[i] = first[i]; data[%d + i] = rest[i]; i += 1; }" % (2 * size, size, size),
          "let len: usize = kani::any(); kani::assume(len >= %d && len <= %d);" % (size, 2 * size),
          "let mut u = Unstructured::new(&data[..len]);",
          "let r = <N as Arbitrary>::arbitrary(&mut u);",
          "kani::cover!(r.is_ok());",
          "match r { Ok(v) => { let g = v.into_inner(); assert!(%s, \"arbitrary returned a value violating a validator\"); } Err(_) => {} }" % d.valid_expr("g")]
    return "    #[kani::proof]\n    #[kani::unwind(%d)]\n    pub fn %s() {\n        %s\n    }\n" % (size + 6, hname, "\n        ".join(b))


def float_harness(d, hname, region="benign", sabotage=False, first_draw_ok=True):
    ty = d.ty
    size = BITS[ty] // 8
    uty = UBITS[ty]
    b = [d.setup()]
    for a in float_region(d, region):
        b.append("kani::assume(%s);" % a)
    nbuf = 2 * size
    b += ["let data: [u8; %d] = kani::any(); let len: usize = kani::any(); kani::assume(len <= %d);" % (nbuf, nbuf)]
    two_sided = d.lower() and d.upper()
    needs_cond = ("finite" in d.validators or d.lower() or d.upper()) and not two_sided
    if needs_cond and first_draw_ok:
        # quick tier: the first drawn float already satisfies the generator's NaN/inf re-draw condition, so the
        # 1000-step byte-mangling loop is not entered (thorough tier runs it with unwind 1001)
        cond = "f.is_finite()" if "finite" in d.validators else "!f.is_nan()"
        b.append("{ let mut w = [0u8; %d]; let mut i = 0; while i < %d { if i < len { w[i] = data[i]; } i += 1; } let f = %s::from_le_bytes(w); kani::assume(%s); }" % (size, size, ty, cond))
    b += ["let mut u = Unstructured::new(&data[..len]);",
          "let r = <N as Arbitrary>::arbitrary(&mut u);",
          "kani::cover!(r.is_ok()); kani::cover!(len == 0);",
          "match r { Ok(v) => { let g = v.into_inner(); assert!(%s, \"arbitrary returned a value violating a validator\"); } Err(_) => {} }" % (d.valid_expr("g") if not sabotage else "g.is_nan()")]
    unwind = size + 2 if first_draw_ok else 1002
    return "    #[kani::proof]\n    #[kani::unwind(%d)]\n    pub fn %s() {\n        %s\n    }\n" % (unwind, hname, "\n        ".join(b))


OTHER = r'''
pub mod other_types {
    use super::*;
    use nutype::nutype;
    use arbitrary::{Arbitrary, Unstructured};
    #[derive(Debug, Clone, Copy, PartialEq, Arbitrary)]
    pub struct P { pub x: i16, pub y: u8 }
    static mut K: i16 = 0;
    fn sanp(p: P) -> P { P { x: p.x | unsafe { K }, y: p.y } }
    #[nutype(sanitize(with = sanp), derive(Debug, Arbitrary))]
    pub struct NP(P);
    #[nutype(derive(Debug, Arbitrary))]
    pub struct G<T>(T);
    #[kani::proof]
    #[kani::unwind(6)]
    pub fn c09_other() {
        unsafe { K = kani::any(); }
        let data: [u8; 4] = kani::any(); let len: usize = kani::any(); kani::assume(len <= 4);
        let r = NP::arbitrary(&mut Unstructured::new(&data[..len]));
        let inner = P::arbitrary(&mut Unstructured::new(&data[..len]));
        kani::cover!(r.is_ok());
        match (r, inner) { (Ok(v), Ok(p)) => assert!(v.into_inner() == sanp(p), "arbitrary did not go through new()"), (Err(_), Err(_)) => {}, _ => assert!(false, "newtype and inner arbitrary disagree") }
        let g = G::<(u8, i8)>::arbitrary(&mut Unstructured::new(&data[..len]));
        let gi = <(u8, i8)>::arbitrary(&mut Unstructured::new(&data[..len]));
        match (g, gi) { (Ok(v), Ok(p)) => assert!(v.into_inner() == p), (Err(_), Err(_)) => {}, _ => assert!(false) }
    }
}
'''

TWO_SIDED_PAIRS = [("0.0", "1.0"), ("-1.0", "1.0"), ("0.5", "16.0"), ("-16.0", "-0.125"), ("1.0", "2.0"), ("-0.0", "0.001"), ("3.0", "3.5"), ("-8.0", "8.0")]

FLOAT_FINDINGS = [
    # key, validators, region, what
    ("C09-float-delta-vanishes", [["gt"], ["lt"], ["gt", "lt"], ["gt", "finite"]], "delta_vanishes"),
    ("C09-float-narrow-range", [["gt", "lt"], ["ge", "lt"], ["gt", "le"]], "narrow"),
    ("C09-float-scaled-rounds-above-inclusive-upper", [["ge", "le"], ["gt", "le"]], "round_above"),
    ("C09-float-range-overflow", [["ge", "le"], ["gt", "lt"]], "range_overflow"),
    ("C09-float-finite-overflow", [["ge", "finite"], ["le", "finite"]], "finite_overflow"),
]


def generate(tier, seed):
    rng = random.Random(seed)
    plan = Plan("C09")
    src = ["// generated by props/c09.py\n"]
    first = True
    small = ["i8", "u8", "i16", "u16", "i32", "u32"]
    big = ["i64", "u64", "i128", "u128", "isize", "usize"]
    types = (small + big) if tier == "thorough" else ["i8", "u8", "i16", "u32"] + rng.sample(["u16", "i32"], 1) + rng.sample(big, 1)
    for ty in types:
        for bc in bound_combos():
            d = NumDecl(ty, list(bc), derive=["Debug", "Arbitrary"])
            m = d.modname()
            hn = "c09_int_" + m
            window = None if BITS[ty] <= 32 else 65535
            hsrc = int_harness(d, hn, window)
            plan.add(H(hn, "main", dict(d.describe(), bytes="all buffers of length <= min(2*size, size+2)", window="all bounds" if window is None else "valid range <= 2^16 elements")))
            if first and d.validators:
                hsrc += int_harness(d, hn + "_must_fail", window, sabotage=True)
                plan.add(H(hn + "_must_fail", "must_fail", {"sabotage": "oracle demands value > min"}))
                first = False
            src.append("pub mod %s {\n    use super::*;\n    use nutype::nutype;\n    %s\n    %s\n%s\n%s}\n" % (m, USE, d.prelude(), indent(d.attr()), hsrc))
    # expression spellings with low-precedence operators: `#b + 1` / `#b - 1` splices
    n = 0
    for ty in (["i32", "u8"] if tier == "quick" else ["i8", "u8", "i16", "i32", "u64", "usize"]):
        for (lk, uk) in [("gt", "lt"), ("gt", None), (None, "lt")]:
            for sp in [s for s in EXPR_SPELLINGS if "if " not in s[0]]:
                n += 1
                d = expr_decl(ty, lk, uk, sp if lk else ("1", "1"), sp if (uk and not lk) else ("12", "12"), n)
                m = d.modname()
                hn = "c09_int_" + m
                pre = d.prelude() + "\n    pub const KC: %s = 5;" % ty
                hsrc = int_harness(d, hn, None)
                plan.add(H(hn, "main", dict(d.describe(), spelling=sp[0] % dict(ty=ty))))
                src.append("pub mod %s {\n    use super::*;\n    use nutype::nutype;\n    %s\n    %s\n%s\n%s}\n" % (m, USE, pre, indent(d.attr()), hsrc))
    # floats
    for ty in FLOAT_TYPES:
        for bc in bound_combos():
            for fin in (False, True):
                v = list(bc) + (["finite"] if fin else [])
                d = NumDecl(ty, v, derive=["Debug", "Arbitrary"])
                m = d.modname()
                hn = "c09_float_" + m
                kind = "main" if ty == "f32" else "main"
                if d.lower() and d.upper():
                    # symbolic bounds: float mul/add monotonicity over (lo, hi, t) does not finish in 150 s -> concrete bound pairs, symbolic bytes
                    hsrc = ""
                    pairs = TWO_SIDED_PAIRS if tier == "thorough" else TWO_SIDED_PAIRS[:5]   # (1.0, 2.0): lower + t*(upper-lower) rounds up to upper for t just below 1
                    for pi, (a_, b_) in enumerate(pairs):
                        d.fixed_bounds = (a_, b_)
                        hsrc += float_harness(d, "%s_p%d" % (hn, pi), "fixed")
                        plan.add(H("%s_p%d" % (hn, pi), kind, dict(d.describe(), bounds_fixed=[a_, b_], bytes="all buffers <= %d bytes" % (2 * BITS[ty] // 8))))
                    d.fixed_bounds = None
                else:
                    hsrc = float_harness(d, hn, "benign")
                    plan.add(H(hn, kind, dict(d.describe(), region="benign: |bound| <= 16; first draw passes the NaN/inf re-draw condition")))
                    if v:
                        for (tag, bits) in (SPECIAL_DRAWS[ty] if (tier == "thorough" or ty == "f32") else SPECIAL_DRAWS[ty][:2]):
                            hsrc += float_special_draw_harness(d, "%s_draw_%s" % (hn, tag), bits)
                            plan.add(H("%s_draw_%s" % (hn, tag), kind, dict(d.describe(), first_draw=tag + " (concrete bit pattern)", region="benign bounds")))
                if tier == "thorough" and ("finite" in v or bc) and not (d.lower() and d.upper()):
                    hsrc += float_harness(d, hn + "_mangle", "benign", first_draw_ok=False)
                    plan.add(H(hn + "_mangle", "best_effort", dict(d.describe(), region="benign; byte-mangling re-draw loop included (unwind 1002)")))
                src.append("pub mod %s {\n    use super::*;\n    use nutype::nutype;\n    %s\n    %s\n%s\n%s}\n" % (m, USE, d.prelude(), indent(d.attr()), hsrc))
    # known-finding regions (each expected to FAIL while listed as known)
    for (key, vlists, region) in FLOAT_FINDINGS:
        for ty in (FLOAT_TYPES if tier == "thorough" else ["f32"]):
            for v in (vlists if tier == "thorough" else vlists[:2]):
                d = NumDecl(ty, v, derive=["Debug", "Arbitrary"], modname="%s_%s_%s" % (ty, "_".join(v), region))
                hn = "c09_float_%s_finding" % d.modname()
                hsrc = float_harness(d, hn, region)
                plan.add(H(hn, "finding", dict(d.describe(), region=region), finding=key,
                           finding_check="Arbitrary generated an invalid value"))   # the generated panic; an INVALID VALUE RETURNED is another matter
                src.append("pub mod %s {\n    use super::*;\n    use nutype::nutype;\n    %s\n    %s\n%s\n%s}\n" % (d.modname(), USE, d.prelude(), indent(d.attr()), hsrc))
    src.append(strprops.gen_c09(plan, tier, rng))
    src.append(OTHER)
    plan.add(H("c09_other", "main", {"case": "struct inner type with sanitizer; generic G<T>: inner arbitrary + new, all 4-byte buffers"}))
    plan.source = "\n".join(src)
    plan.bounds = {"integers": "all byte buffers of length <= min(2*size_of, size_of+2) incl. empty; 8/16/32-bit: all bound values; 64/128-bit: all bounds with a valid range of <= 2^16 elements",
                   "floats": "all byte buffers of length <= 2*size_of; bounds in the stated region (benign region claimed; the regions of the known findings are explored by their own harnesses)",
                   "float gap": "bound values outside both the benign region and the finding regions are not explored"}
    plan.assumptions = ["valid set non-empty (property precondition)", "non-NaN float bounds", "arbitrary 1.3.2 as pinned in /repo/Cargo.lock"]
    plan.kani_flags = ["-Z", "stubbing"]
    # slowest claimed harness ~35 s; the best-effort harnesses (all-whitespace String draws; thorough: the 1000-step float mangling loop)
    # mostly run into the cap, so the cap decides the wall time
    plan.timeout_s = 150 if tier == "quick" else 400
    plan.pre_steps = plan.pre_steps + [strprops.model_validation_step]
    plan.assumptions = plan.assumptions + strprops.ASSUMPTIONS + ["String Arbitrary: only declarations whose target length is a constant (len_char_min == len_char_max, or not_empty + len_char_max = 1); byte streams of 4-byte words encoding ASCII characters (concrete whitespace, symbolic fillers); String::push stubbed by a one-byte ASCII model"]
    plan.bounds["strings"] = "String Arbitrary with constant target length <= 2 on ASCII word streams of <= 5 characters; symbolic target lengths and non-ASCII characters are outside the claim"
    return plan
