"""String sections of C01 / C03 / C04 / C07 / C10 / C11 / C13 (see vlib/strkit.py for the input model)."""
import os, re
from vlib.driver import H, sh
from vlib.strkit import *

USE = ("use nutype::nutype;\n    use core::str::FromStr;\n    use core::borrow::Borrow;\n    use core::hash::Hash;\n    use core::fmt::Write as _;\n"
       "    use crate::support::de::*;\n    use crate::support::ser::*;\n    use crate::support::rec::RecHasher;\n    use serde::{Deserialize, Serialize};")

ASSUMPTIONS = ["strings: inputs are skeletons of concrete whitespace/underscore/non-ASCII characters with symbolic printable-ASCII fillers (<= 3), one harness per skeleton; longer strings and other characters are outside the claim",
               "-Z stubbing: str::trim / to_lowercase / to_uppercase replaced by support::strmodel models, exact on these inputs (trim follows a per-call plan that the model checks against the bytes; case models are byte-wise for ASCII and U+00C0..U+00FE and are never fed ß/ÿ/µ under uppercase); validated natively against the real std functions before every run; native replay runs the real functions",
               "custom string predicate / regex object / `with` sanitizer are harness functions: pred(s)=len!=PLEN, RX.is_match(s)=len%2==RXPAR%2 (symbolic PLEN/RXPAR), mark = `_` -> space in place"]

UNWIND = 12


def module(d, body, extra_pre=""):
    return "pub mod %s {\n    use super::*;\n    %s\n    %s\n%s\n%s\n%s}\n" % (d.modname(), USE, d.prelude(), extra_pre, "\n".join("    " + l for l in d.attr().split("\n")), body)


def proof(name, stmts, stubs=True, unwind=UNWIND, extra_attr=""):
    return "    #[kani::proof]\n    #[kani::unwind(%d)]\n%s%s    pub fn %s() {\n        %s\n    }\n" % (unwind, extra_attr, STUBS if stubs else "", name, "\n        ".join(s for s in stmts if s))


def symbolic_validity(d):
    return any(v in d.validators for v in ("pred", "regex")) or (not d.literal and any(v in d.validators for v in ("min", "max")))


def sk_tag(i):
    return "k%d" % i


# ------------------------------------------------------------------------------------------------ C01
def c01_harness(d, sk, name, sabotage=False):
    st, cells = input_builder(sk)
    out, plans = simulate(d.sanitizers, cells)
    b = [d.setup()] + st + plan_stmt(plans)
    nb = byte_len(out)
    if sabotage:
        out_s = cells
        nb = byte_len(out_s)
        b.append(expect_bytes(out_s))
    else:
        b.append(expect_bytes(out))
    if d.has_validation():
        b.append("let valid: bool = %s;" % d.valid_expr(out))
        b.append("let r = %s::try_new(text);" % d.name)
        if symbolic_validity(d) and not sabotage:
            n_ = len(out)
            can_invalid = any(v in d.validators for v in ("pred", "regex")) or ("not_empty" in d.validators and n_ == 0) or \
                (not d.literal and ("min" in d.validators or ("max" in d.validators and n_ > 0)))
            can_valid = not ("not_empty" in d.validators and n_ == 0)
            b.append(("kani::cover!(valid); " if can_valid else "") + ("kani::cover!(!valid);" if can_invalid else "") or "kani::cover!(true);")
        else:
            b.append("kani::cover!(true);")
        b.append("match r {\n            Ok(v) => { assert!(valid, \"accepted a value violating a validator\"); let g = v.into_inner(); let gb = g.as_bytes(); assert!(%s, \"stored text is not the declared sanitizers applied in order\"); core::mem::forget(g); }\n"
                 "            Err(_) => { assert!(!valid, \"rejected a value satisfying every validator\"); }\n        }" % eq_bytes("gb", "exp", nb))
    else:
        b.append("let g = %s::new(text).into_inner(); let gb = g.as_bytes();" % d.name)
        b.append("kani::cover!(true);")
        b.append("assert!(%s, \"new() did not wrap the declared sanitizers applied in order\"); core::mem::forget(g);" % eq_bytes("gb", "exp", nb))
    return proof(name, b)


def gen_c01(plan, tier, rng):
    src = []
    first = True
    for d in decl_catalogue(tier, rng, "C01"):
        body = ""
        for i, sk in enumerate(skeletons_for(d, tier, rng)):
            hn = "c01_str_%s_%s" % (d.modname(), sk_tag(i))
            body += c01_harness(d, sk, hn)
            plan.add(H(hn, "main", dict(d.describe(), input_skeleton=skeleton_repr(sk))))
            if first and d.sanitizers and sk.strip() != sk:
                body += c01_harness(d, sk, hn + "_must_fail", sabotage=True)
                plan.add(H(hn + "_must_fail", "must_fail", {"sabotage": "oracle expects the raw text to be stored"}))
                first = False
        src.append(module(d, body))
    return "\n".join(src)


# ------------------------------------------------------------------------------------------------ C07
def c07_harness(d, sk, name):
    st, cells = input_builder(sk)
    out, plans = simulate(d.sanitizers, cells)
    b = [d.setup()] + st + plan_stmt(plans)
    b.append("let first: Option<usize> = %s;" % d.first_violated(out))
    b.append("kani::cover!(true);")
    arms = ["Ok(_) => { assert!(first.is_none(), \"accepted although a rule is violated\"); }"]
    for i, v in enumerate(d.validators):
        arms.append("Err(%sError::%s) => { assert!(first == Some(%d), \"error variant is not the first violated rule in written order\"); }" % (d.name, VARIANT[v], i))
    b.append("match %s::try_new(text) {\n            %s\n        }" % (d.name, "\n            ".join(arms)))
    return proof(name, b)


def gen_c07(plan, tier, rng):
    src = []
    orders = [["max", "pred", "min"], ["min", "not_empty", "max"], ["not_empty", "min", "regex"], ["min", "not_empty", "regex"], ["regex", "min", "not_empty"], ["max", "pred", "not_empty"], ["pred", "max"], ["not_empty", "max", "min", "pred", "regex"],
              ["regex", "pred", "min", "max", "not_empty"]]
    if tier == "thorough":
        orders += [list(p) for p in itertools.permutations(["not_empty", "min", "max", "pred"])][1:12]
    sks = ["", "X", " XY ", "XYZ", "  ", "\u00e9X", "\u00c9\u00e9 "]   # incl. multi-byte characters: byte length != character count
    n = 0
    variants = []
    for vs in orders:
        for ch in ([[], ["trim"]] if tier == "quick" else [[], ["trim"], ["trim", "lowercase"]]):
            variants.append((ch, vs, None))
    # literal bounds (ValueOrExpr::Value path; a generator may special-case literal limits)
    for vs in ([["not_empty", "min", "regex"], ["min", "not_empty"], ["max", "not_empty", "min"]] if tier == "quick" else orders):
        if "min" in vs or "max" in vs:
            variants.append((["trim"], vs, {"min": 1, "max": 2}))
            variants.append(([], vs, {"min": 2, "max": 3}))
    for (ch, vs, lit) in variants:
            n += 1
            d = StrDecl(ch, vs, literal=lit, modname="c07s_%d" % n)
            body = ""
            for i, sk in enumerate(sks):
                hn = "c07_str_%d_%s" % (n, sk_tag(i))
                body += c07_harness(d, sk, hn)
                plan.add(H(hn, "main", dict(d.describe(), input_skeleton=skeleton_repr(sk))))
            src.append(module(d, body))
    return "\n".join(src)


# ------------------------------------------------------------------------------------------------ C03
def c03_conversions(d):
    if d.has_validation():
        return [("tryfrom_str", "TryFrom<&str>", "<%s as TryFrom<&str>>::try_from(text)" % d.name), ("tryfrom_string", "TryFrom<String>", "<%s as TryFrom<String>>::try_from(String::from(text))" % d.name),
                ("fromstr", "FromStr", "<%s as FromStr>::from_str(text)" % d.name)]
    return [("from_str", "From<&str>", "Ok::<_, ()>(<%s as From<&str>>::from(text))" % d.name), ("from_string", "From<String>", "Ok::<_, ()>(<%s as From<String>>::from(String::from(text)))" % d.name),
            ("fromstr", "FromStr", "<%s as FromStr>::from_str(text)" % d.name)]


def c03_harness(d, sk, name, conv):
    tag, what, call = conv
    st, cells = input_builder(sk)
    out, plans = simulate(d.sanitizers, cells)
    nb = byte_len(out)
    b = [d.setup()] + st + plan_stmt(plans) + [expect_bytes(out)]
    b.append("let valid: bool = %s;" % d.valid_expr(out))
    b.append("kani::cover!(true);")
    if d.has_validation():
        b.append("let first: Option<usize> = %s;" % d.first_violated(out))
        arms = ["Ok(v) => { assert!(valid, \"%s accepted a text the constructor rejects\"); let g = v.into_inner(); let gb = g.as_bytes(); assert!(%s, \"%s stored something other than the sanitized text\"); core::mem::forget(g); }" % (what, eq_bytes("gb", "exp", nb), what)]
        for i2, v in enumerate(d.validators):
            arms.append("Err(%sError::%s) => { assert!(first == Some(%d), \"%s error differs from the constructor's\"); }" % (d.name, VARIANT[v], i2, what))
        b.append("match %s {\n            %s\n        }" % (call, "\n            ".join(arms)))
    else:
        b.append("match %s { Ok(v) => { let g = v.into_inner(); let gb = g.as_bytes(); assert!(%s, \"%s stored something other than the sanitized text\"); core::mem::forget(g); } Err(_) => { assert!(false, \"%s failed without validators\"); } }" % (call, eq_bytes("gb", "exp", nb), what, what))
    return proof(name, b)


def c03_default_harness(d, sk, name):
    """default = "<concrete skeleton text>": Default equals the constructor, or never returns"""
    cells = parse_skeleton(sk)
    out, plans = simulate(d.sanitizers, cells)
    nb = byte_len(out)
    b = [d.setup()] + plan_stmt(plans) + [expect_bytes(out)]
    if d.has_validation():
        b.append("let valid: bool = %s;" % d.valid_expr(out))
        b.append("kani::assume(valid);")
    b.append("let g = <%s as Default>::default().into_inner(); let gb = g.as_bytes(); kani::cover!(true);" % d.name)
    b.append("assert!(%s, \"Default differs from the constructor applied to the default expression\"); core::mem::forget(g);" % eq_bytes("gb", "exp", nb))
    ok = proof(name + "_ok", b)
    inv = None
    if d.has_validation():
        bi = [d.setup()] + plan_stmt(plans) + ["let valid: bool = %s;" % d.valid_expr(out), "kani::assume(!valid);",
              "let v = <%s as Default>::default();" % d.name, "kani::cover!(true, \"MARKER default() returned although the default is invalid\");"]
        inv = proof(name + "_invalid", bi, extra_attr="    #[kani::should_panic]\n")
    return ok, inv


def gen_c03(plan, tier, rng):
    src = []
    decls = decl_catalogue(tier, rng, "C03")
    if tier == "quick":
        decls = decls[::2]
    # conversions must report the constructor's error for rule orders in which a cheaper rule is NOT first
    have = {d.modname() for d in decls}
    for d in (StrDecl([], ["pred", "max"]), StrDecl(["lowercase"], ["min", "max"]), StrDecl([], ["regex", "max", "min"])):
        if d.modname() not in have:
            decls.append(d)
    for d in decls:
        d.derive = ["Debug", "FromStr"] + (["TryFrom"] if d.has_validation() else ["From"])
        body = ""
        sks = skeletons_for(d, tier, rng)
        if tier == "quick":
            # + a titlecase letter (U+01C5: neither is_uppercase nor is_lowercase, changed by both case mappings) where case matters
            sks = sks[:3] + (["\u01c5X"] if ("lowercase" in d.sanitizers or "uppercase" in d.sanitizers) else [])
        for i, sk in enumerate(sks):
            for conv in c03_conversions(d):
                hn = "c03_str_%s_%s_%s" % (d.modname(), sk_tag(i), conv[0])
                body += c03_harness(d, sk, hn, conv)
                plan.add(H(hn, "main", dict(d.describe(), input_skeleton=skeleton_repr(sk), conversion=conv[1])))
        src.append(module(d, body))
    # Default with a concrete default text (the expression is spliced into default())
    n = 0
    for ch, vs, sk in [(["trim", "lowercase"], ["min", "max"], " Ab "), (["trim"], ["not_empty"], "   "), ([], ["max", "pred"], "xyz"), (["uppercase"], [], "ab")]:
        n += 1
        d = StrDecl(ch, vs, derive=["Debug", "Default"], default='"%s"' % sk, modname="c03s_dflt%d" % n)
        hn = "c03_str_default%d" % n
        ok, inv = c03_default_harness(d, sk, hn)
        body = ""
        out_, _ = simulate(d.sanitizers, parse_skeleton(sk))
        can_ok = not ("not_empty" in d.validators and len(out_) == 0)
        if can_ok:
            body += ok
            plan.add(H(hn + "_ok", "main", dict(d.describe(), default=sk)))
        if inv and (symbolic_validity(d) or not can_ok):
            body += inv
            plan.add(H(hn + "_invalid", "main", dict(d.describe(), default=sk), expect_panic=True, unreachable=["MARKER default() returned"]))
        src.append(module(d, body))
    return "\n".join(src)


# ------------------------------------------------------------------------------------------------ C11
def c11_entries(d):
    e = []
    if d.has_validation():
        e.append(("try_new", "%s::try_new(String::from(text))" % d.name))
        e.append(("tryfrom", "<%s as TryFrom<&str>>::try_from(text)" % d.name))
    else:
        e.append(("new", "Ok::<_, ()>(%s::new(String::from(text)))" % d.name))
        e.append(("from", "Ok::<_, ()>(<%s as From<&str>>::from(text))" % d.name))
    e.append(("fromstr", "<%s as FromStr>::from_str(text)" % d.name))
    e.append(("deserialize", "<%s as Deserialize>::deserialize(StubDe::new(Ev::Str(text, StrMode::Transient)))" % d.name))
    return e


def c11_step_harness(d, sk, name, entry):
    """one inductive step: from ANY obtainable value (= the image `out` of the sanitizer chain, established by the first-pass
    harness) one application of an entry point accepts it and stores the same text"""
    cells = parse_skeleton(sk)
    out, _ = simulate(d.sanitizers, cells)
    st, plain = input_from_cells(out)
    out2, plans2 = simulate(d.sanitizers, plain)
    nb = byte_len(plain)
    b = [d.setup()] + st + plan_stmt(plans2)
    b.append("let valid: bool = %s;" % d.valid_expr(plain))
    b.append("kani::assume(valid);  // only accepted values are obtainable")
    b.append("kani::cover!(true, \"obtainable value\");")
    b.append("match %s { Ok(w) => { let g = w.into_inner(); let gb = g.as_bytes(); assert!(%s, \"re-entering the stored value changed it\"); core::mem::forget(g); }\n"
             "            Err(_) => { assert!(false, \"the stored value is rejected when re-entered\"); } }" % (entry[1], eq_bytes("gb", "raw", nb)))
    return proof(name, b)


def gen_c11(plan, tier, rng):
    src = []
    decls = [d for d in decl_catalogue(tier, rng, "C11") if "with" not in d.sanitizers]
    if tier == "quick":
        decls = decls[::2]
    for d in decls:
        d.derive = ["Debug", "FromStr", "Deserialize"] + (["TryFrom"] if d.has_validation() else ["From"])
        body = ""
        for i, sk in enumerate(skeletons_for(d, tier, rng)[:3 if tier == "quick" else 99]):
            out, _ = simulate(d.sanitizers, parse_skeleton(sk))
            if d.has_validation() and "not_empty" in d.validators and len(out) == 0:
                continue  # nothing obtainable from this skeleton
            hn = "c11_str_%s_%s_first" % (d.modname(), sk_tag(i))
            body += c01_harness(d, sk, hn)
            plan.add(H(hn, "main", dict(d.describe(), input_skeleton=skeleton_repr(sk), step="first pass: stored text == sanitizer chain image")))
            for entry in c11_entries(d):
                hn = "c11_str_%s_%s_%s" % (d.modname(), sk_tag(i), entry[0])
                body += c11_step_harness(d, sk, hn, entry)
                plan.add(H(hn, "main", dict(d.describe(), stored_template=skeleton_repr("".join((c.ch or c.fill) for c in out)), step="re-enter through " + entry[0])))
        src.append(module(d, body))
    return "\n".join(src)


# ------------------------------------------------------------------------------------------------ C13
def c13_harness(d, sk, name, part, sabotage=False):
    st, cells = input_builder(sk)
    out, plans = simulate(d.sanitizers, cells)
    nb = byte_len(out)
    b = [d.setup()] + st + plan_stmt(plans) + [expect_bytes(out if not sabotage else cells)]
    if sabotage:
        nb = byte_len(cells)
    b.append("let v = match %s { Ok(v) => v, Err(_) => return };" % ("%s::try_new(text)" % d.name if d.has_validation() else "Ok::<_, ()>(%s::new(text))" % d.name))
    b.append("kani::cover!(true, \"obtainable value\");")
    b.append("let inner: &str = %s;  // the stored text per the reference (String and str hash/print alike)" % ("unsafe { core::str::from_utf8_unchecked(&exp) }" if nb else "\"\""))
    if part == "views":
        b.append("{ let r: &str = v.as_ref(); let rb = r.as_bytes(); assert!(%s, \"AsRef<str> does not view the stored text\"); }" % eq_bytes("rb", "exp", nb))
        b.append("{ let r: &String = &*v; let rb = r.as_bytes(); assert!(%s, \"Deref does not view the stored text\"); }" % eq_bytes("rb", "exp", nb))
        b.append("{ let r: &str = Borrow::<str>::borrow(&v); let rb = r.as_bytes(); assert!(%s, \"Borrow<str> does not view the stored text\"); }" % eq_bytes("rb", "exp", nb))
        b.append("{ let r: &String = Borrow::<String>::borrow(&v); let rb = r.as_bytes(); assert!(%s, \"Borrow<String> does not view the stored text\"); }" % eq_bytes("rb", "exp", nb))
        b.append("let mut h1 = RecHasher::new(); let mut h2 = RecHasher::new(); let mut h3 = RecHasher::new(); let mut h4 = RecHasher::new();")
        b.append("v.hash(&mut h1); inner.hash(&mut h2); Borrow::<str>::borrow(&v).hash(&mut h3); Borrow::<String>::borrow(&v).hash(&mut h4);")
        b.append("assert!(h1 == h2, \"Hash differs from the inner String's hash\"); assert!(h1 == h3 && h1 == h4, \"Hash differs from the hash of the borrowed form\"); assert!(!h1.overflow && h1.n > 0);")
        b.append("core::mem::forget(v);")
    else:
        b.append("let mut s1 = Sink { buf: [0; 8], n: 0 }; let mut s2 = Sink { buf: [0; 8], n: 0 };")
        b.append("let r1 = write!(s1, \"{}\", v); let r2 = write!(s2, \"{}\", inner); assert!(r1.is_ok() && r2.is_ok() && s1.n == s2.n && s1.buf == s2.buf, \"Display prints something other than the inner text\");")
        b.append("let c = v.clone(); assert!(c == v, \"Clone is not equal\"); assert!(v.partial_cmp(&c) == Some(core::cmp::Ordering::Equal) && v.cmp(&c) == core::cmp::Ordering::Equal);")
        b.append("{ let into: String = c.into(); let ib = into.as_bytes(); assert!(%s, \"Into<String> does not yield the stored text\"); core::mem::forget(into); }" % eq_bytes("ib", "exp", nb))
        b.append("core::mem::forget(v);")
    return proof(name, b, unwind=14)


def c13_pair_harness(d, sk1, sk2, name):
    """comparisons of two obtainable values equal the inner comparisons"""
    st1, cells1 = input_builder(sk1, var="raw1")
    st1 = [s.replace("let text:", "let text1:") for s in st1]
    out1, plans1 = simulate(d.sanitizers, cells1)
    cells2 = parse_skeleton(sk2)
    out2, plans2 = simulate(d.sanitizers, cells2)
    b = [d.setup()] + st1
    b.append("let text2: &str = \"%s\";" % "".join("\\u{%x}" % ord(c) for c in sk2))
    b += plan_stmt(plans1) + [expect_bytes(out1, "exp1"), expect_bytes(out2, "exp2")]
    mk = lambda t: ("%s::try_new(%s)" % (d.name, t)) if d.has_validation() else ("Ok::<_, ()>(%s::new(%s))" % (d.name, t))
    b.append("let v = match %s { Ok(v) => v, Err(_) => return };" % mk("text1"))
    b += plan_stmt(plans2)
    b.append("let w = match %s { Ok(v) => v, Err(_) => return };" % mk("text2"))
    b.append("kani::cover!(true, \"two obtainable values\");")
    b.append("let (i1, i2): (&str, &str) = (%s, %s);" % ("unsafe { core::str::from_utf8_unchecked(&exp1) }" if byte_len(out1) else "\"\"", "unsafe { core::str::from_utf8_unchecked(&exp2) }" if byte_len(out2) else "\"\""))
    b.append("assert!((v == w) == (i1 == i2), \"PartialEq differs from the inner ==\");")
    b.append("assert!(v.partial_cmp(&w) == i1.partial_cmp(i2), \"PartialOrd differs from the inner order\"); assert!(v.cmp(&w) == i1.cmp(i2), \"Ord differs from the inner order\");")
    b.append("core::mem::forget(v); core::mem::forget(w);")
    return proof(name, b, unwind=14)


SINK = ("    pub struct Sink { pub buf: [u8; 8], pub n: usize }\n"
        "    impl core::fmt::Write for Sink { fn write_str(&mut self, s: &str) -> core::fmt::Result { let b = s.as_bytes(); let mut i = 0; while i < b.len() { if self.n < 8 { self.buf[self.n] = b[i]; self.n += 1; } i += 1; } Ok(()) } }")


def gen_c13(plan, tier, rng):
    src = []
    chains = [([], []), (["trim"], ["not_empty"]), (["trim", "lowercase"], ["min", "max"]), (["uppercase"], [])] if tier == "quick" else \
             [([], []), (["trim"], ["not_empty"]), (["trim", "lowercase"], ["min", "max"]), (["uppercase"], []), (["lowercase", "trim"], ["pred"]), (["with", "trim"], ["max"])]
    first = True
    for n, (ch, vs) in enumerate(chains):
        d = StrDecl(ch, vs, derive=["Debug", "Clone", "PartialEq", "Eq", "PartialOrd", "Ord", "Hash", "AsRef", "Deref", "Borrow", "Into", "Display"], modname="c13s_%d" % n)
        body = ""
        sks = [" XY ", "", "ÉX "] if tier == "quick" else ["", "X", " XY ", "ÉX ", "XYZ", "_X_"]
        for i, sk in enumerate(sks):
            for part in ("views", "misc"):
                hn = "c13_str_%d_%s_%s" % (n, sk_tag(i), part)
                body += c13_harness(d, sk, hn, part)
                plan.add(H(hn, "main", dict(d.describe(), input_skeleton=skeleton_repr(sk), part={"views": "AsRef/Deref/Borrow<str>/Borrow<String>/Hash", "misc": "Display/Clone/Eq/Ord/Into"}[part])))
            hn = "c13_str_%d_%s" % (n, sk_tag(i))
            if first and ch:
                body += c13_harness(d, " XY ", hn + "_must_fail", "views", sabotage=True)
                plan.add(H(hn + "_must_fail", "must_fail", {"sabotage": "expects the views to show the raw text"}))
                first = False
        for j, (a, b2) in enumerate([(" XY", "ab"), ("X", "M"), ("XY", "a")]):
            hn = "c13_str_%d_pair%d" % (n, j)
            body += c13_pair_harness(d, a, b2, hn)
            plan.add(H(hn, "main", dict(d.describe(), inputs=[skeleton_repr(a), b2])))
        src.append(module(d, body, extra_pre=SINK))
    # derive-set interaction: Hash derived WITHOUT Borrow / AsRef only
    d = StrDecl(["trim"], ["not_empty"], derive=["Debug", "Hash", "AsRef", "PartialEq"], modname="c13s_hash_noborrow")
    st, cells = input_builder(" XY ")
    out, plans = simulate(d.sanitizers, cells)
    b = [d.setup()] + st + plan_stmt(plans) + [expect_bytes(out),
         "let v = match %s::try_new(text) { Ok(v) => v, Err(_) => return };" % d.name, "kani::cover!(true, \"obtainable value\");",
         "let inner: &str = unsafe { core::str::from_utf8_unchecked(&exp) };",
         "let mut h1 = RecHasher::new(); let mut h2 = RecHasher::new(); let mut h3 = RecHasher::new();",
         "v.hash(&mut h1); inner.hash(&mut h2); { let r: &str = v.as_ref(); r.hash(&mut h3); }",
         "assert!(h1 == h2 && h1 == h3, \"Hash differs from the inner String's hash when Borrow is not derived\"); core::mem::forget(v);"]
    src.append(module(d, proof("c13_str_hash_noborrow", b, unwind=14), extra_pre=SINK))
    plan.add(H("c13_str_hash_noborrow", "main", dict(d.describe(), part="Hash vs inner hash, Borrow not derived")))
    return "\n".join(src)


# ------------------------------------------------------------------------------------------------ C04 / C10
def c04_harness(d, sk, name, mode):
    st, cells = input_builder(sk)
    out, plans = simulate(d.sanitizers, cells)
    nb = byte_len(out)
    b = [d.setup()] + st + plan_stmt(plans) + [expect_bytes(out)]
    b.append("let valid: bool = %s;" % d.valid_expr(out))
    b.append("unsafe { NEWTYPE_CALLS = 0; }")
    b.append("let got = <%s as Deserialize>::deserialize(StubDe::new(Ev::Str(text, StrMode::%s)));" % (d.name, mode))
    b.append("kani::cover!(true);")
    b.append("assert!(unsafe { NEWTYPE_CALLS } == 1 && unsafe { LAST_NEWTYPE_NAME }.len() == %d, \"entry is not deserialize_newtype_struct(<type name>)\");" % len(d.name))
    b.append("match got { Ok(v) => { assert!(valid, \"deserialized a text the constructor rejects\"); let g = v.into_inner(); let gb = g.as_bytes(); assert!(%s, \"deserialized text is not the sanitized text\"); }\n"
             "            Err(_) => { assert!(!valid, \"deserialization failed although the text deserializes as String and the constructor accepts it\"); } }" % eq_bytes("gb", "exp", nb).replace("); }", "); core::mem::forget(g); }", 1))
    return proof(name, b)


def gen_c04(plan, tier, rng):
    src = []
    combos = [([], []), (["trim", "lowercase"], ["not_empty", "max"]), (["trim"], ["min", "max"])] if tier == "quick" else \
             [([], []), (["trim", "lowercase"], ["not_empty", "max"]), (["trim"], ["min", "max"]), (["uppercase"], ["pred"]), (["with", "trim"], ["regex"]), (["lowercase"], [])]
    for n, (ch, vs) in enumerate(combos):
        d = StrDecl(ch, vs, derive=["Debug", "Deserialize"] + (["PartialEq", "Eq", "Hash", "PartialOrd", "Ord"] if n % 2 == 1 else []), modname="c04s_%d" % n)
        body = ""
        for i, sk in enumerate([" XY ", "", "ÉX "] if tier == "quick" else ["", "X", " XY ", "ÉX ", "_X_"]):
            for mode in ("Borrowed", "Transient", "Owned"):
                hn = "c04_str_%d_%s_%s" % (n, sk_tag(i), mode.lower())
                body += c04_harness(d, sk, hn, mode)
                plan.add(H(hn, "main", dict(d.describe(), input_skeleton=skeleton_repr(sk), event="text delivered as visit_%s" % {"Borrowed": "borrowed_str", "Transient": "str", "Owned": "string"}[mode])))
        # wrongly typed event
        hn = "c04_str_%d_wrongtype" % n
        body += proof(hn, [d.setup(), "let got = <%s as Deserialize>::deserialize(StubDe::new(Ev::U64(kani::any())));" % d.name, "kani::cover!(true);", "assert!(got.is_err(), \"a number deserialized as a String newtype\");"])
        plan.add(H(hn, "main", dict(d.describe(), event="u64")))
        src.append(module(d, body))
    return "\n".join(src)


def c10_harness(d, sk, name):
    st, cells = input_builder(sk)
    out, plans = simulate(d.sanitizers, cells)
    nb = byte_len(out)
    b = [d.setup()] + st + plan_stmt(plans) + [expect_bytes(out)]
    b.append("let v = match %s { Ok(v) => v, Err(_) => return };" % ("%s::try_new(text)" % d.name if d.has_validation() else "Ok::<_, ()>(%s::new(text))" % d.name))
    b.append("kani::cover!(true, \"obtainable value\");")
    b.append("let inner: &str = %s;" % ("unsafe { core::str::from_utf8_unchecked(&exp) }" if nb else "\"\""))
    b.append("let r = v.serialize(RecSer).unwrap(); let ri = inner.serialize(RecSer).unwrap();")
    b.append("assert!(r.ev == ri.ev && r.newtype_depth == ri.newtype_depth + 1, \"not exactly a newtype struct around the inner String's own encoding\");")
    b.append("assert!(r.name_len == %d && r.name_first == b'%s' && r.name_last == b'%s', \"newtype struct name is not the declared type name\");" % (len(d.name), d.name[0], d.name[-1]))
    b.append("core::mem::forget(v);")
    return proof(name, b)


def c10_roundtrip_harness(d, sk, name):
    """the serialized form of an obtainable value is its stored text (c10_harness); deserializing that text yields the same value"""
    cells = parse_skeleton(sk)
    out, _ = simulate(d.sanitizers, cells)
    st, plain = input_from_cells(out)
    out2, plans2 = simulate(d.sanitizers, plain)
    nb = byte_len(plain)
    b = [d.setup()] + st + plan_stmt(plans2)
    b.append("let valid: bool = %s; kani::assume(valid);" % d.valid_expr(plain))
    b.append("kani::cover!(true, \"obtainable value\");")
    b.append("match <%s as Deserialize>::deserialize(StubDe::new(Ev::Str(text, StrMode::Transient))) { Ok(w) => { let g = w.into_inner(); let gb = g.as_bytes(); assert!(%s, \"round trip changed the value\"); core::mem::forget(g); }\n"
             "            Err(_) => { assert!(false, \"a valid value does not survive the round trip\"); } }" % (d.name, eq_bytes("gb", "raw", nb)))
    return proof(name, b)


def gen_c10(plan, tier, rng):
    src = []
    combos = [([], []), (["trim", "lowercase"], ["not_empty", "max"])] if tier == "quick" else [([], []), (["trim", "lowercase"], ["not_empty", "max"]), (["uppercase"], ["min"]), (["trim"], ["regex"])]
    for n, (ch, vs) in enumerate(combos):
        d = StrDecl(ch, vs, derive=["Debug", "Serialize", "Deserialize"], name="Label", modname="c10s_%d" % n)
        body = ""
        for i, sk in enumerate([" XY ", "", "ÉX "] if tier == "quick" else ["", "X", " XY ", "ÉX ", "XYZ"]):
            hn = "c10_str_%d_%s" % (n, sk_tag(i))
            body += c10_harness(d, sk, hn)
            plan.add(H(hn, "main", dict(d.describe(), input_skeleton=skeleton_repr(sk), part="serialize == newtype struct around the stored text")))
            out, _ = simulate(d.sanitizers, parse_skeleton(sk))
            if not ("not_empty" in d.validators and len(out) == 0):
                body += c10_roundtrip_harness(d, sk, hn + "_rt")
                plan.add(H(hn + "_rt", "main", dict(d.describe(), part="deserialize(stored text) == the same value")))
        src.append(module(d, body))
    return "\n".join(src)


# ------------------------------------------------------------------------------------------------ native validation of the models
MODEL_TEST = r'''
#[cfg(test)]
mod strmodel_native_validation {
    use crate::support::strmodel::*;
    /// every string of <= 3 characters over the harness alphabet: models == real std
    #[test]
    fn vp_strmodel_matches_std() {
        let ws = [' ', '\t', '\n', '\u{a0}', '\u{2003}', '\u{85}', '\u{3000}'];
        let other = ['_', '\u{e9}', '\u{c9}', '\u{df}', '\u{1c4}', '\u{1c5}', '\u{1c6}', 'a', 'A', 'z', 'Z', '0', '~', '!'];
        let mut alphabet: Vec<char> = Vec::new();
        alphabet.extend_from_slice(&ws); alphabet.extend_from_slice(&other);
        for b in 0x21u8..0x7f { alphabet.push(b as char); }
        alphabet.sort(); alphabet.dedup();
        let mut n = 0u64;
        let mut check = |s: &str| {
            n += 1;
            let t = s.trim();
            let st = t.as_ptr() as usize - s.as_ptr() as usize;
            unsafe { TRIM_CALLS = 0; P0S = st; P0E = st + t.len(); }
            assert_eq!(trim_model(s), t, "trim model differs from str::trim on {:?}", s);
            assert_eq!(to_lowercase_model(s), s.to_lowercase(), "lowercase model differs on {:?}", s);
            if !s.contains('\u{df}') { assert_eq!(to_uppercase_model(s), s.to_uppercase(), "uppercase model differs on {:?}", s); }
        };
        check("");
        for &a in &alphabet { let s: String = [a].iter().collect(); check(&s); }
        for &a in &alphabet { for &b in &alphabet { let s: String = [a, b].iter().collect(); check(&s); } }
        let small: Vec<char> = alphabet.iter().cloned().filter(|c| !c.is_ascii_graphic() || "aAzZ_0~".contains(*c)).collect();
        for &a in &small { for &b in &small { for &c in &small { for &d in &small { let s: String = [a, b, c, d].iter().collect(); check(&s); } } } }
        // expanding case mappings (one character becomes two): separate models, alphabet ASCII + U+00DF resp. U+0130
        let exp_up = ['\u{df}', 'a', 'Z', ' ', '0'];
        let exp_lo = ['\u{130}', 'a', 'Z', ' ', '0'];
        for &a in &exp_up { for &b in &exp_up { for &c in &exp_up { let s: String = [a, b, c].iter().collect(); n += 1;
            assert_eq!(to_uppercase_model_expanding(&s), s.to_uppercase(), "expanding uppercase model differs on {:?}", s);
            assert_eq!(to_uppercase_model_expanding(&s[a.len_utf8()..]), s[a.len_utf8()..].to_uppercase()); } } }
        for &a in &exp_lo { for &b in &exp_lo { for &c in &exp_lo { let s: String = [a, b, c].iter().collect(); n += 1;
            assert_eq!(to_lowercase_model_expanding(&s), s.to_lowercase(), "expanding lowercase model differs on {:?}", s);
            assert_eq!(to_lowercase_model_expanding(&s[a.len_utf8()..]), s[a.len_utf8()..].to_lowercase()); } } }
        for c in ['\u{df}', '\u{130}', 'a', '\u{7f}', '\u{80}', '\u{7ff}'] { let mut m = String::new(); push_2byte_model(&mut m, c); let mut r = String::new(); r.push(c); assert_eq!(m, r); n += 1; }
        println!("strmodel validated on {} strings", n);
    }
}
'''


def model_validation_step(ctx):
    """append the native test to the crate copy and run it (ordinary cargo test through `cargo kani playback`)"""
    crate = ctx["crate"]
    lib = os.path.join(crate, "src", "lib.rs")
    txt = open(lib).read()
    if "strmodel_native_validation" not in txt:
        open(lib, "a").write(MODEL_TEST)
    plan = ctx["plan"]
    rc, out = sh(["cargo", "kani", "playback", "-Z", "concrete-playback", "--features", ",".join([plan.pid.lower()] + plan.features), "--", "vp_strmodel_matches_std", "--nocapture"],
                 cwd=crate, env={"CARGO_TARGET_DIR": os.path.join(ctx["wdir"], "target-pb")}, log=os.path.join(ctx["wdir"], "strmodel.log"), timeout=3600)
    m = re.search(r"strmodel validated on (\d+) strings", out)
    ok = re.search(r"test result: ok\. 1 passed", out)
    if ok and m:
        return [("ok", "strmodel-native-validation", {"what": "trim/lowercase/uppercase models equal the real std functions on %s strings over the harness alphabet" % m.group(1)})]
    return [("inconclusive", "strmodel-native-validation", {"what": "model validation did not pass: " + out[-600:]})]


# ------------------------------------------------------------------------------------------------ C09 (String Arbitrary)
# Declarations whose generated `target_len` is a CONSTANT (len_char_min == len_char_max, or not_empty + len_char_max = 1), byte
# streams made of 4-byte words that encode ASCII characters (concrete whitespace words, symbolic non-whitespace fillers), and
# `String::push` stubbed by an ASCII one-byte model: every buffer length stays concrete.  Python mirrors the generated
# algorithm (fill target_len characters; with `trim`: re-trim and push the next character until the trimmed count reaches
# target_len) only to know WHICH trim calls happen (the plan) and what text results; the assertion is C09's: no panic, and the
# value returned is accepted by the constructor's reference predicate and equals the sanitized generated text.
C09_STUBS = STUBS + "    #[kani::stub(alloc::string::String::push, crate::support::strmodel::push_ascii_model)]\n"


def c09_simulate(d, target_len, stream):
    """stream: list of Cells (one per 4-byte word). returns (stored cells after try_new's sanitizers, trim plans, words consumed)"""
    pos = 0
    def next_cell():
        nonlocal pos
        if pos < len(stream):
            c = stream[pos]
        else:
            c = Cell(ch="\0")   # exhausted input: u32::arbitrary pads with zeros -> '\0' (not whitespace)
        pos += 1
        return c
    out = [next_cell() for _ in range(target_len)]
    plans = []
    if "trim" in d.sanitizers:
        for _ in range(8):
            t, p = sim_trim(out)
            plans.append(p)
            if len(t) == target_len:
                break
            if len(t) < target_len:
                t2, p2 = sim_trim(out)
                plans.append(p2)
                out = t2 + [next_cell()]
        else:
            return None
    stored, p3 = simulate(d.sanitizers, out)
    return stored, plans + p3, pos


def c09_harness(d, target_len, stream_sk, name, kind_cover=True, selector=None):
    cells = parse_skeleton(stream_sk)
    sim = c09_simulate(d, target_len, cells)
    if sim is None or len(sim[1]) > 8:
        return None
    stored, plans, used = sim
    fills = sorted({c.fill for c in cells if c.fill})
    b = [d.setup()]
    for f in fills:
        v = "b%s" % f.lower()
        b.append("let %s: u8 = kani::any(); kani::assume(%s > 0x20 && %s < 0x7f && %s != b'_');" % (v, v, v, v))
    words = []
    for c in cells:
        words += [c.rust_bytes()[0], "0", "0", "0"]
    if selector is not None:
        words = [str(selector)] + words   # the byte int_in_range consumes to pick target_len (only when min_len != max_len)
    b.append("let data: [u8; %d] = [%s];" % (max(len(words), 1), ", ".join(words) if words else "0"))
    b.append("let mut u = arbitrary::Unstructured::new(&data[..%d]);" % len(words))
    b += plan_stmt(plans)
    b.append(expect_bytes(stored))
    nb = byte_len(stored)
    b.append("let valid: bool = %s;" % d.valid_expr(stored))
    b.append("let r = <%s as arbitrary::Arbitrary>::arbitrary(&mut u);" % d.name)
    b.append("kani::cover!(r.is_ok());")
    b.append("match r { Ok(v) => { let g = v.into_inner(); let gb = g.as_bytes(); assert!(valid, \"arbitrary returned a value violating a validator\"); "
             "assert!(%s, \"arbitrary returned something other than the sanitized generated text\"); core::mem::forget(g); } Err(_) => {} }" % eq_bytes("gb", "exp", nb))
    src = "    #[kani::proof]\n    #[kani::unwind(%d)]\n%s    pub fn %s() {\n        %s\n    }\n" % (14, C09_STUBS, name, "\n        ".join(s for s in b if s))
    # an EMPTY intermediate text (all-whitespace draws) is where CBMC's heap model gets lost (dangling-pointer Strings, see
    # DESIGN §11): such harnesses are best effort - a timeout or a natively non-reproducing heap failure is `undecided`
    empty_step = any(a == e for (a, e) in plans) or len(stored) == 0
    return src, empty_step


def c09_case_expansion(plan):
    """case sanitizers whose mapping turns ONE character into TWO (`ß` -> "SS", `İ` -> "i̇") against `len_char_max`: the text is not
    predicted (a generator may avoid or replace such characters as it likes); the assertion is C09's core - no panic, and the returned
    text satisfies the declared limits and is case-sanitized."""
    cases = [
        ("c09s_up_expand1", "sanitize(uppercase), validate(not_empty, len_char_max = 1)", 1, 1, ["0xdf, 0, 0, 0"], [], "upper", "U+00DF"),
        ("c09s_lo_expand1", "sanitize(lowercase), validate(not_empty, len_char_max = 1)", 1, 1, ["0x30, 0x01, 0, 0"], [], "lower", "U+0130"),
        ("c09s_up_expand2", "sanitize(uppercase), validate(len_char_min = 2, len_char_max = 2)", 2, 2, ["0x62, 0, 0, 0", "0xdf, 0, 0, 0"], [], "upper", "'b' U+00DF"),   # (a symbolic filler next to a 2-byte character makes the buffer length symbolic: does not finish)
    ]
    out = []
    for (mod, attr, lo, hi, words, fills, case, what) in cases:
        hn = "c09_str_%s" % mod
        stubs = ("    #[kani::stub(str::to_uppercase, crate::support::strmodel::to_uppercase_model_expanding)]\n" if case == "upper" else
                 "    #[kani::stub(str::to_lowercase, crate::support::strmodel::to_lowercase_model_expanding)]\n")
        stubs += "    #[kani::stub(alloc::string::String::push, crate::support::strmodel::push_2byte_model)]\n"
        b = []
        for f in fills:
            b.append("let b%s: u8 = kani::any(); kani::assume(b%s > 0x20 && b%s < 0x7f);" % (f, f, f))
        b.append("let data: [u8; %d] = [%s];" % (4 * len(words), ", ".join(words)))
        b.append("let mut u = arbitrary::Unstructured::new(&data);")
        b.append("let r = <S as arbitrary::Arbitrary>::arbitrary(&mut u);")
        b.append("kani::cover!(r.is_ok());")
        bad = "gb[i] >= b'a' && gb[i] <= b'z'" if case == "upper" else "gb[i] >= b'A' && gb[i] <= b'Z'"
        b.append("match r { Ok(v) => { let g = v.into_inner(); let gb = g.as_bytes(); let mut n = 0usize; let mut cased_ok = true; let mut i = 0; "
                 "while i < gb.len() { if (gb[i] & 0xC0) != 0x80 { n += 1; } if %s { cased_ok = false; } i += 1; } "
                 "assert!(n >= %d && n <= %d, \"arbitrary returned a text whose character count violates the declared limits\"); "
                 "assert!(cased_ok, \"arbitrary returned a text that is not case-sanitized\"); core::mem::forget(g); } Err(_) => {} }" % (bad, lo, hi))
        body = "    #[kani::proof]\n    #[kani::unwind(14)]\n%s    pub fn %s() {\n        %s\n    }\n" % (stubs, hn, "\n        ".join(b))
        out.append("pub mod %s {\n    use super::*;\n    use nutype::nutype;\n    #[nutype(%s, derive(Debug, Arbitrary))]\n    pub struct S(String);\n%s}\n" % (mod, attr, body))
        plan.add(H(hn, "main", {"type": "String", "attr": attr, "stream": "4-byte words encoding " + what + " (a character whose case mapping yields two characters)",
                                "asserts": "no panic; character count within the declared limits; case-sanitized"}))
    return "\n".join(out)


def gen_c09(plan, tier, rng):
    src = []
    decls = [
        (StrDecl([], ["min", "max"], literal={"min": 2, "max": 2}, modname="c09s_plain2"), 2, ["XY", "X", "", "X Y"]),
        (StrDecl(["lowercase"], ["min", "max"], literal={"min": 2, "max": 2}, modname="c09s_lower2"), 2, ["XY", "X"]),
        (StrDecl(["uppercase"], ["min", "max"], literal={"min": 2, "max": 2}, modname="c09s_upper2"), 2, ["XY"]),
        (StrDecl(["trim"], ["not_empty", "max"], literal={"max": 1}, modname="c09s_trim_ne1"), 1, ["X", " X", "  X", " ", "", "X "]),
        (StrDecl(["trim"], ["min", "max"], literal={"min": 2, "max": 2}, modname="c09s_trim2"), 2, ["XY", " XY", "X Y", "X ", " X Y", "  XY"]),
        (StrDecl(["trim", "lowercase"], ["min", "max"], literal={"min": 1, "max": 1}, modname="c09s_trim_lower1"), 1, ["X", " X", "\tX"]),
        (StrDecl([], ["not_empty", "max"], literal={"max": 1}, modname="c09s_ne1"), 1, ["X", " ", ""]),
        # `not_empty` combined with `len_char_min`, in both orders: the lower length is the LARGER of the two (was a defect: the first
        # one written won - known_findings.json `C09-string-not-empty-shadows-len-char-min`, fixed). min == max, so the generated
        # int_in_range consumes no selector byte; a generator that picks the smaller minimum consumes one and yields another text.
        (StrDecl([], ["not_empty", "min", "max"], literal={"min": 2, "max": 2}, modname="c09s_ne_min2"), 2, ["XY", "X"]),
        (StrDecl([], ["min", "not_empty", "max"], literal={"min": 0, "max": 1}, modname="c09s_min0_ne"), 1, ["X", ""]),
        (StrDecl(["trim"], ["min", "not_empty", "max"], literal={"min": 2, "max": 2}, modname="c09s_trim_min2_ne"), 2, ["XY", " XY"]),
    ]
    if tier == "quick":
        decls = [(d, t, sks[:4]) for (d, t, sks) in decls]
    for (d, tlen, sks) in decls:
        d.derive = ["Debug", "Arbitrary"]
        body = ""
        for i, sk in enumerate(sks):
            hn = "c09_str_%s_%s" % (d.modname(), sk_tag(i))
            h = c09_harness(d, tlen, sk, hn)
            if h is None:
                continue
            body += h[0]
            plan.add(H(hn, "best_effort" if h[1] else "main", dict(d.describe(), target_len=tlen, stream="4-byte words encoding " + skeleton_repr(sk) + " (fillers symbolic ASCII), then exhausted")))
        src.append(module(d, body))
    src.append(c09_case_expansion(plan))
    return "\n".join(src)
