#!/bin/sh
# usage: tools/run_thorough.sh C07 C03 ...   (sequential; evidence to work/ev-thorough, logs work/<ID>.thorough.log)
cd /verif
mkdir -p work/ev-thorough
for p in "$@"; do VERIF_EVIDENCE_DIR=/verif/work/ev-thorough /usr/bin/time -f "$p thorough wall %e s" ./check $p --tier thorough > work/$p.thorough.log 2>&1; echo "$p exit $?" >> work/thorough.status; done
