#!/usr/bin/env python3
"""Run the quick checks against every seeded change in /verif/seeded (each applied to its own scratch worktree of /repo
under /tmp, removed afterwards) and record which check catches which change in /verif/seeded/RESULTS.json.
usage: tools/run_seeded.py [name ...]   (default: all)   env: SEED_PAR (parallel worktrees, default 3), SEED_CHECKS (comma list overriding the per-property check order)"""
import json, os, subprocess, sys, shutil, concurrent.futures as cf, re, time
V = "/verif"
# which checks to run for a change seeded against property X (the property itself + closely related ones)
ALSO = {"C01": ["C01", "C11"], "C02": ["C02", "C01"], "C03": ["C03"], "C04": ["C04", "C10"], "C06": ["C06"], "C07": ["C07"], "C08": ["C08", "C02"], "C09": ["C09"],
        "C10": ["C10", "C04"], "C11": ["C11", "C01", "C03", "C06", "C04", "C09"], "C12": ["C12", "C01", "C08", "C09"], "C13": ["C13", "C12"], "C14": ["C14", "C09", "C08"], "C16": ["C16", "C01", "C07"]}

def run_one(name):
    prop = name.split("-")[0]
    wt = "/tmp/seedwt/%s" % name
    subprocess.run(["git", "-C", "/repo", "worktree", "remove", "--force", wt], stderr=subprocess.DEVNULL)
    os.makedirs("/tmp/seedwt", exist_ok=True)
    subprocess.check_call(["git", "-C", "/repo", "worktree", "add", "-q", "--detach", wt, "HEAD"])
    res = {"change": name, "checks": {}}
    try:
        r = subprocess.run(["git", "-C", wt, "apply", os.path.join(V, "seeded", name, "patch.diff")], capture_output=True, text=True)
        if r.returncode != 0:
            res["error"] = "patch does not apply: " + r.stderr[:300]
            return res
        for chk in (os.environ["SEED_CHECKS"].split(",") if os.environ.get("SEED_CHECKS") else ALSO.get(prop, [prop])):
            env = dict(os.environ, VERIF_REPO=wt, VERIF_WORK="/tmp/seedwt/work-%s" % name, VERIF_EVIDENCE_DIR="/tmp/seedwt/ev-%s" % name,
                       VERIF_JOBS=os.environ.get("SEED_JOBS", "5"))
            t0 = time.time()
            p = subprocess.run([os.path.join(V, "check"), chk, "--tier", "quick"], cwd=V, env=env, capture_output=True, text=True)
            out = p.stdout + p.stderr
            viol = [l for l in out.splitlines() if l.startswith("VIOLATION")]
            detail = [l.strip() for l in out.splitlines() if l.startswith("  harness=")]
            if p.returncode == 1 and not viol:
                p.returncode = 3   # the check crashed (exit 1 without a VIOLATION line): not a detection
            res["checks"][chk] = {"exit": p.returncode, "violations": len(viol), "first": (detail[0][:260] if detail else None),
                                  "inconclusive": [l[:200] for l in out.splitlines() if l.startswith("INCONCLUSIVE")][:3], "wall_s": round(time.time() - t0)}
            if p.returncode == 1:
                break
    finally:
        subprocess.run(["git", "-C", "/repo", "worktree", "remove", "--force", wt])
        shutil.rmtree("/tmp/seedwt/work-%s" % name, ignore_errors=True)
        shutil.rmtree("/tmp/seedwt/ev-%s" % name, ignore_errors=True)
    return res

def main():
    names = sys.argv[1:] or sorted(d for d in os.listdir(os.path.join(V, "seeded")) if os.path.isdir(os.path.join(V, "seeded", d)))
    rp = os.path.join(V, "seeded", "RESULTS.json")
    results = json.load(open(rp)) if os.path.exists(rp) else {}
    with cf.ThreadPoolExecutor(int(os.environ.get("SEED_PAR", "3"))) as ex:
        for r in ex.map(run_one, names):
            results[r["change"]] = r
            caught = [c for c, v in r["checks"].items() if v["exit"] == 1]
            print(r["change"], "CAUGHT by " + ",".join(caught) if caught else "MISSED", json.dumps({c: (v["exit"], v["wall_s"]) for c, v in r["checks"].items()}), r.get("error", ""), flush=True)
            json.dump(results, open(rp, "w"), indent=1)
main()
