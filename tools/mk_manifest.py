#!/usr/bin/env python3
"""Regenerates /verif/MANIFEST.json from the table below (single source of truth for claims)."""
import json, os
V = os.path.dirname(os.path.dirname(os.path.abspath(__file__)))
props = [json.loads(l) for l in open(os.path.join(V, "properties.jsonl"))]

TECH = "bounded model checking (Kani 0.68 / CBMC 6.11 + cadical) of the code the real macro expands, symbolic inputs and bounds"
CLAIMS = {
 "C01": dict(design="§2 C01",
   text="Every catalogue declaration (validator-kind combinations x 12 integer / 2 float types x path/closure spellings x literal extremes x const_fn twins) is expanded by the macro built from /repo and try_new/new are decided by CBMC for ALL raw inputs and, for expression bounds, ALL bound values against an independent reference predicate; loop-free, so no unwinding bound. The declaration axis is enumerated, not solved.",
   note="Trusted: Kani/CBMC/cadical, rustc front end of Kani's toolchain. Assumes non-NaN float bounds; custom fns range over symbolic families pred=(bits&MASK)!=0, san=bits^K. String built-in sanitizers per DESIGN string plan."),
 "C03": dict(design="§2 C03",
   text="TryFrom/From/Default of every catalogue declaration decided for all inputs, bounds and default values: equal to try_new/new and to the reference; invalid defaults: default() returns on no path (should_panic harness + unreachable marker).",
   note="Same trusted base as C01; From+TryFrom cannot be derived together so they are checked on twin declarations."),
}
NA = {
 "C05": "verdict is rustc's accept/reject of client programs and the shape of the expansion; no symbolic input, nothing for a solver to decide (DESIGN §2 C05)",
 "C15": "verdict is whether a #![no_std] crate builds: a name-resolution fact with no symbolic input; Kani always links std (DESIGN §2 C15)",
}
checks = []
for pid, c in sorted(CLAIMS.items()):
    checks.append({
        "property_id": pid,
        "quick_cmd": "./check %s --tier quick" % pid,
        "thorough_cmd": "./check %s --tier thorough" % pid,
        "evidence_file": "/verif/evidence/%s.json" % pid,
        "replay_cmd_template": "./check %s --replay {path}" % pid,
        "engine": c.get("engine", "G"),
        "level_claimed": {"category": "model_checking", "text": c["text"], "design_ref": c["design"]},
        "level_note": c["note"],
        "technique": c.get("technique", TECH),
    })
na = []
for p in props:
    if p["id"] in CLAIMS:
        continue
    na.append({"property_id": p["id"], "reason": NA.get(p["id"], "check not built yet (work in progress)")})
m = {
 "version": 1,
 "setup_cmd": "true",
 "hooks": {"guard": "nutype_verif", "enable": "Engine G needs no hooks. Engine M (macro_core mirror crate) sets --cfg nutype_verif from its own build.rs",
           "baseline_off_cmd": "cd /repo && cargo test --workspace --no-fail-fast --offline", "source_commits": [], "add_only": True},
 "engines": [
   {"name": "G", "path": "/verif/harness/gen_proofs", "serves_properties": sorted(k for k, c in CLAIMS.items() if c.get("engine", "G") == "G"),
    "kind_free_text": "out-of-tree Kani harness crate with a path dependency on /repo/nutype: the real proc-macro is rebuilt from the working tree and expands every declaration; CBMC decides the expanded code"},
 ],
 "checks": checks,
 "notes": "All checks: ./check <ID> --tier quick|thorough. Exit 0 held / 1 VIOLATION (natively replayed) / 2 inconclusive. See DESIGN.md.",
 "not_applicable": na,
}
json.dump(m, open(os.path.join(V, "MANIFEST.json"), "w"), indent=1)
print("claims:", sorted(CLAIMS), "na:", [x["property_id"] for x in na])
