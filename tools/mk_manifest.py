#!/usr/bin/env python3
"""Regenerates /verif/MANIFEST.json from the table below (single source of truth for claims)."""
import json, os
V = os.path.dirname(os.path.dirname(os.path.abspath(__file__)))
props = [json.loads(l) for l in open(os.path.join(V, "properties.jsonl"))]

TECH = "bounded model checking (Kani 0.68 / CBMC 6.11 + cadical) of the code the real macro expands, symbolic inputs and bounds"
CLAIMS = {
 "C01": dict(design="§2 C01",
   text="Every catalogue declaration (validator-kind combinations x 12 integer / 2 float types x path/closure spellings x literal extremes x const_fn twins) is expanded by the macro built from /repo and try_new/new are decided by CBMC for ALL raw inputs and, for expression bounds, ALL bound values against an independent reference predicate; loop-free, so no unwinding bound. The declaration axis is enumerated, not solved.",
   note="Trusted: Kani/CBMC/cadical, rustc front end of Kani's toolchain. Assumes non-NaN float bounds; custom fns range over symbolic families pred=(bits&MASK)!=0, san=bits^K. String built-in sanitizers per DESIGN string plan."),
 "C02": dict(design="§2 C02",
   text="Catalogue of ~70 bound spellings / attribute layouts; which are accepted is rustc's verdict (one cargo check pass, rejected spellings satisfy the property); for every accepted spelling CBMC decides for ALL inputs that try_new's verdict equals the conjunction of the written rules with the value each bound denotes (written independently as a typed Rust expression).",
   note="The 'cannot honour => rejected' direction is only observed, not decided. Spellings are enumerated. Brace-containing bound expressions are left out (they break the macro's generated #[cfg(test)] format string and thereby native replay)."),
 "C03": dict(design="§2 C03",
   text="TryFrom/From/Default of every catalogue declaration decided for all inputs, bounds and default values: equal to try_new/new and to the reference; invalid defaults: default() returns on no path (should_panic harness + unreachable marker).",
   note="Same trusted base as C01; From+TryFrom cannot be derived together so they are checked on twin declarations."),
 "C04": dict(design="§2 C04",
   text="Generated Deserialize (visitor, visit_newtype_struct, try_new/new, map_err) decided against a data-model-level stub Deserializer: one harness per (declaration, event kind), all payload values, differential oracle = inner type's own Deserialize + reference predicate; nested positions Option/[N;2]/(N,)/struct field; plus two other deserializer behaviours (newtype struct presented as a one-element sequence; RON-like explicit options).",
   note="Stub models how serde_json, ron and rmp-serde drive newtype structs (deserialize_newtype_struct -> visit_newtype_struct(self)); byte-level parsers of the formats are trusted. Event KIND is concrete per harness (a symbolic kind does not finish); 128-bit events only for 128-bit targets."),
 "C06": dict(design="§2 C06",
   text="Integers: real core::num parser on ALL ASCII byte strings of length <= 4 (quick) / 5 (thorough), oracle inner.parse() + reference. Floats and other/generic inner types: the inner FromStr is a nondeterministic stub (any value incl. NaN/inf/-0 or any error) that records the text it is handed, so the composition parse->constructor->Parse/Validate is decided for every parse outcome.",
   note="-Z stubbing of <f32|f64 as FromStr>::from_str; which text yields which float is trusted core (dec2flt out of reach). Natively (replay) the real parsers run."),
 "C07": dict(design="§2 C07",
   text="Every permutation (thorough; a sample in quick) of every validator subset per numeric type: the error variant returned equals the first rule, in written order, violated by the sanitized value, for ALL inputs and ALL bound values incl. contradictory bounds; wildcard-free match pins the enum shape; custom with/error returns the user's error value unchanged.",
   note="A missing/extra variant shows as BUILD-FAILED (exit 2), not as a VIOLATION. String validators: see C01 string section."),
 "C08": dict(design="§2 C08", engine="M",
   text="PARTIAL: the macro's validation layer (trait admissibility tables of the 4 families, From-xor-TryFrom, numeric bound consistency, duplicates, len_char_min/max, lowercase+uppercase) is called directly (mirror crate #[path]-including /repo/nutype_macros/src) with symbolic configurations and literal values, against an independent reference table. In addition (observed, not solved): a spelling-layer probe - one cargo check pass plus one run of the generated unit tests over ~100 declarations (literal bounds that exclude each other in every literal spelling, invalid regex literals beside other validators, expression bounds/defaults the macro cannot evaluate, a literal bound contradicting an expression bound, each with a consistent control): refused at compile time, or caught by the generated test, as the property's two clauses demand. The rest of the parse layer (inner-field visibility, foreign attributes, unknown names, feature gates, name clashes) is NOT covered.",
   note="Rejection is observed by stubbing syn::Error::new. Needs the cfg(nutype_verif) hooks. A change confined to the uncovered part of the parse layer (attribute grammar beyond C02's refused layouts, feature gates, foreign attributes) is not detected. The spelling-layer probe is enumeration of concrete declarations judged by rustc/cargo test, not a solver result."),
 "C09": dict(design="§2 C09",
   text="Integers: generated Arbitrary + real arbitrary::Unstructured::int_in_range decided for ALL byte buffers (<= min(2n, n+2) bytes incl. empty) and ALL bounds (64/128-bit: valid range <= 2^16) - no panic, value valid. Floats: all buffers <= 2n bytes; one-sided bounds symbolic in the benign region |b|<=16, two-sided bounds from a catalogue of concrete pairs; other/generic: inner arbitrary + new. plus harnesses whose first drawn float is a concrete non-finite pattern; other/generic: inner arbitrary + new. String Arbitrary in a restricted form: declarations with a constant target length (len_char_min == len_char_max, or not_empty + len_char_max = 1), byte streams of 4-byte words encoding ASCII characters (concrete whitespace, symbolic fillers), String::push stubbed by a one-byte ASCII model; plus case-expansion streams (a drawn character whose case mapping yields two characters, against len_char_max). Five genuine float defects are recorded as known findings with region-restricted twin harnesses.",
   note="String Arbitrary with a symbolic target length (e.g. not_empty alone) or non-ASCII draws is NOT covered; streams whose intermediate text becomes empty are best effort (CBMC heap-model artefacts on empty Strings). Float bound values outside the benign region and outside the known-finding regions are not explored. The 1000-step NaN/inf mangling loop is only run on concrete first draws (quick) / as best effort (thorough)."),
 "C10": dict(design="§2 C10",
   text="Recording Serializer: for ALL obtainable values, serialize() is exactly one serialize_newtype_struct(<declared name>, &inner) around the inner value's own event; the recorded event fed to the C04 stub Deserializer yields the same stored bits. Numeric families, struct/Option/tuple inner types, generic newtype name.",
   note="'Byte-identical in JSON/MessagePack' follows from those formats' documented newtype handling (trusted); real encoders/decoders not executed."),
 "C11": dict(design="§2 C11, String plan",
   text="Numeric: for ALL obtainable values (idempotent symbolic sanitizer) re-entering through try_new, TryFrom and Deserialize(stub event) reproduces the stored bits. Strings: every order of {trim, lowercase|uppercase} x validator sets on skeleton inputs; canonicity as a one-step invariant: from ANY obtainable value (the image of the sanitizer chain, established by a first-pass harness) each of try_new/new, TryFrom/From<&str>, FromStr, Deserialize accepts it and stores the same text - which covers chains of any length.",
   note="Idempotence over the rest of Unicode (final sigma, dotted capital I, ligatures, the full White_Space set) is a statement about core::unicode tables and is not encodable within reach. -Z stubbing models of trim/to_lowercase/to_uppercase are exact on the harness alphabet and validated natively before every run. Numeric Display->FromStr chains are not executed."),
 "C12": dict(design="§2 C12",
   text="finite float newtypes: for ALL triples of bit patterns and ALL non-NaN bounds, obtainable values are finite, == reflexive, cmp antisymmetric/transitive, agrees with partial_cmp of the inner floats and with ==, never panics; NaN/inf unobtainable through try_new, TryFrom, Default (symbolic default) and Deserialize (stub events, incl. the sequence presentation); const_fn declarations included.",
   note="FromStr and Arbitrary entry points for finite declarations are decided in C06 / C09. slice::sort not executed."),
 "C13": dict(design="§2 C13",
   text="For ALL pairs of obtainable values: AsRef/Deref/Borrow/Into/Clone/Copy expose the stored value; ==, partial_cmp, cmp equal the inner ones; Hash feeds a recording Hasher the same call sequence as the inner value and as the Borrow'ed form; Display hands the caller's Formatter (width/precision/flags) and the value to the inner Display (recording inner type); IntoIterator by value/by ref.",
   note="Integer/float Display run core::fmt::num/flt2dec: outside reach, checked on a harness-defined inner Display instead. Strings: see string section."),
 "C14": dict(design="§2 C14",
   text="forall-exists via Skolem witness: for ALL bounds (valid range <= 2^16 elements for >16-bit types) and ALL targets t in the valid range, arbitrary() on the witness bytes (big-endian t-min in the k bytes int_in_range consumes) returns t. Expression spellings with low-precedence operators included. Natively the replay confirms by exhaustive enumeration that NO input yields t.",
   note="Witness encodes arbitrary 1.3.2's byte order (version pinned by /repo/Cargo.lock)."),
 "C16": dict(design="§2 C16",
   text="Native step prints to_string() of every bound-violation variant of a literal-bound catalogue (and the serde/FromStr embeddings, compared verbatim); a fixed phrase table parses (type name, relation, bound); per variant CBMC decides for ALL values (all lengths 0..N+2 for strings) that the stated relation holds exactly for the accepted values; two-bound declarations: whichever variant is returned, its message never describes an admitted value as forbidden.",
   note="The phrase table is part of the claim. Expression-valued bounds' formatting is outside reach. One wording defect (float less_or_equal) is a known finding pinned by the existing test suite."),
}
NA = {
 "C05": "verdict is rustc's accept/reject of client programs and the shape of the expansion; no symbolic input, nothing for a solver to decide (DESIGN §2 C05)",
 "C15": "verdict is whether a #![no_std] crate builds: a name-resolution fact with no symbolic input; Kani always links std (DESIGN §2 C15)",
}
SKIP = set()
checks = []
PENDING = set()
for pid, c in sorted(CLAIMS.items()):
    if pid in PENDING:
        continue
    checks.append({
        "property_id": pid,
        "quick_cmd": "./check %s --tier quick" % pid,
        "thorough_cmd": "./check %s --tier thorough" % pid,
        "evidence_file": "/verif/evidence/%s.json" % pid,
        "replay_cmd_template": "./check %s --replay {path}" % pid,
        "engine": c.get("engine", "G"),
        "level_claimed": {"category": "model_checking", "text": c["text"], "design_ref": c["design"]},
        "level_note": c["note"],
        "technique": c.get("technique", TECH),
    })
na = []
for p in props:
    if p["id"] in CLAIMS and p["id"] not in PENDING:
        continue
    if p["id"] in SKIP:
        continue
    na.append({"property_id": p["id"], "reason": NA.get(p["id"], "check not built yet (work in progress)")})
m = {
 "version": 1,
 "setup_cmd": "true",
 "hooks": {"guard": "nutype_verif", "enable": "Engine G needs no hooks. Engine M (macro_core mirror crate) sets --cfg nutype_verif from its own build.rs",
           "baseline_off_cmd": "cd /repo && cargo test --workspace --no-fail-fast --offline", "source_commits": ["525179a"], "add_only": True},
 "engines": [
   {"name": "G", "path": "/verif/harness/gen_proofs", "serves_properties": sorted(k for k, c in CLAIMS.items() if c.get("engine", "G") == "G"),
    "kind_free_text": "out-of-tree Kani harness crate with a path dependency on /repo/nutype: the real proc-macro is rebuilt from the working tree and expands every declaration; CBMC decides the expanded code"},
   {"name": "M", "path": "/verif/harness/macro_core", "serves_properties": sorted(k for k, c in CLAIMS.items() if c.get("engine") == "M"),
    "kind_free_text": "mirror lib crate #[path]-including the module trees of /repo/nutype_macros/src (hooks on via its build.rs); Kani harnesses call the macro's validation functions with symbolic configurations"},
 ],
 "checks": checks,
 "notes": "All checks: ./check <ID> --tier quick|thorough (run from /verif). Exit 0 held / 1 VIOLATION (natively replayed) / 2 inconclusive. Quick tier of all 14 checks: about 40 min on 16 cores. Thorough tiers decide at most VERIF_THOROUGH_CAP (default 1200) claimed harnesses per run, an even stride through the generated catalogue rotated by VERIF_SEED (0 by default); the rest is reported as not run. Known findings: known_findings.json (KNOWN-FINDING lines, exit 0); fixed entries suppress nothing. Scratch: /verif/work (regenerated; per-harness Kani artifacts are purged after every run). See DESIGN.md, PART II.",
 "not_applicable": na,
}
json.dump(m, open(os.path.join(V, "MANIFEST.json"), "w"), indent=1)
print("claims:", sorted(CLAIMS), "na:", [x["property_id"] for x in na])
