#!/bin/bash
# archive_mut2.sh ID variant(a|b) : round-2 seeded change from /tmp/mut/out3 -> /verif/seeded/<ID>-<c|d>
ID=$1; V=$2; SRC=/tmp/mut/out3/$ID/$V; case $V in a) T=e;; b) T=f;; esac; DST=/verif/seeded/$ID-$T
grep -q DONE $SRC/confirm.log || { echo "not confirmed: $ID $V"; exit 1; }
mkdir -p $DST && cp $SRC/patch.diff $DST/ && cp $SRC/NOTES.md $DST/ 2>/dev/null; rm -rf $DST/demo; cp -r $SRC/demo $DST/demo; rm -rf $DST/demo/target
sed -i "s#/tmp/mut3/$ID/nutype#/repo/nutype#g" $DST/demo/Cargo.toml
cp $SRC/confirm.log $DST/confirm.log
python3 - "$ID" "$T" <<'PY'
import json,sys,re,os
ID,T=sys.argv[1],sys.argv[2]
d=f"/verif/seeded/{ID}-{T}"
notes=open(d+"/NOTES.md").read() if os.path.exists(d+"/NOTES.md") else ""
log=open(d+"/confirm.log").read()
meta={"property":ID,"variant":T,"round":3,"breaks":ID,"base":"repo head 1a546f8 (snapshot + fix/hook commits)",
 "needs_to_manifest": notes[:1500],
 "confirmed_by_me":{"worktree":f"/tmp/mut3/{ID} (scratch git worktree of /repo, removed afterwards)",
   "commands":["git apply patch.diff","cargo test --workspace --no-fail-fast --offline","(cd demo && sh run.sh | cargo test --offline; cargo run --offline)","git checkout -- .","(same demo commands on the clean tree)"],
   "observed": re.sub(r"\n+","\n",log)[-1800:]},
 "detected_by": None}
json.dump(meta,open(d+"/meta.json","w"),indent=1)
PY
echo archived $DST
