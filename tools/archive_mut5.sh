#!/bin/bash
# archive_mut5.sh ID variant(a|b) : round-5 seeded change from /tmp/mut5/out -> /verif/seeded/<ID>-<i|j>
ID=$1; V=$2; SRC=/tmp/mut5/out/$ID/$V; case $V in a) T=i;; b) T=j;; esac; DST=/verif/seeded/$ID-$T
grep -q DONE $SRC/confirm.log || { echo "not confirmed: $ID $V"; exit 1; }
mkdir -p $DST && cp $SRC/patch.diff $DST/ && cp $SRC/NOTES.md $DST/ 2>/dev/null; rm -rf $DST/demo; cp -r $SRC/demo $DST/demo; rm -rf $DST/demo/target
grep -rl "/tmp/mut5/$ID" $DST/demo | xargs -r sed -i "s#/tmp/mut5/$ID#/repo#g"
cp $SRC/confirm.log $DST/confirm.log
python3 - "$ID" "$T" <<'PY'
import json,sys,re,os
ID,T=sys.argv[1],sys.argv[2]
d=f"/verif/seeded/{ID}-{T}"
notes=open(d+"/NOTES.md").read() if os.path.exists(d+"/NOTES.md") else ""
log=open(d+"/confirm.log").read()
meta={"property":ID,"variant":T,"round":5,"breaks":ID,"base":"repo head cc08117 (snapshot + fix/hook commits)",
 "needs_to_manifest": notes[:1500],
 "confirmed_by_me":{"worktree":f"/tmp/mut5/{ID} (scratch git worktree of /repo, removed afterwards)",
   "commands":["git apply patch.diff","cargo test --workspace --no-fail-fast --offline","(cd demo && sh run.sh)","git checkout -- .","(cd demo && sh run.sh)  # clean tree"],
   "observed": re.sub(r"\n+","\n",log)[-1800:]},
 "detected_by": None}
json.dump(meta,open(d+"/meta.json","w"),indent=1)
PY
echo archived $DST
