#!/bin/bash
# confirm_mut.sh ROOT ID variant(a|b): confirm a sub-agent's seeded change in its scratch worktree ROOT/ID:
#   patch applies, whole workspace suite passes with it, demonstration fails with it and passes without it. Writes ROOT/out/ID/<v>/confirm.log
ROOT=$1; ID=$2; V=$3; WT=$ROOT/$ID; O=$ROOT/out/$ID/$V; L=$O/confirm.log
cd $WT || exit 2
git checkout -q -- . ; git status --short | grep -v '^??' && { echo "worktree dirty"; exit 2; }
{
git apply $O/patch.diff || { echo "PATCH DOES NOT APPLY"; exit 1; }
echo "== suite with mutation"
cargo test --workspace --no-fail-fast --offline > $O/suite.log 2>&1; echo "suite rc=$?"
awk '/^test result/{p+=$4; f+=$6} END{print "passed=" p " failed=" f}' $O/suite.log
echo "== demo with mutation"
(cd $O/demo && CARGO_TARGET_DIR=$WT/target/demo_$V sh run.sh 2>&1 | tail -n 25; echo "run rc=${PIPESTATUS[0]}")
git checkout -q -- .
echo "== demo on clean tree"
(cd $O/demo && CARGO_TARGET_DIR=$WT/target/demo_$V sh run.sh 2>&1 | tail -n 8; echo "run rc=${PIPESTATUS[0]}")
echo DONE
} > $L 2>&1
grep -E "rc=|passed=|DOES NOT|DONE" $L | tr '\n' ' '; echo
