#!/bin/sh
# usage: tools/run_batch.sh C01 C03 ...   (sequential, logs in work/<ID>.batch.log)
cd /verif
for p in "$@"; do /usr/bin/time -f "$p wall %e s" ./check $p > work/$p.batch.log 2>&1; done
