#!/usr/bin/env python3
"""Fill seeded/<name>/meta.json `detected_by` and regenerate the §12 table in DESIGN.md from seeded/RESULTS.json."""
import json, os, re
V = "/verif"
R = json.load(open(os.path.join(V, "seeded", "RESULTS.json")))
rows = []
for name in sorted(R):
    r = R[name]
    caught = [c for c, v in r["checks"].items() if v["exit"] == 1]
    incon = [c for c, v in r["checks"].items() if v["exit"] == 2]
    mp = os.path.join(V, "seeded", name, "meta.json")
    meta = json.load(open(mp))
    meta["detected_by"] = caught
    meta["check_runs"] = {c: {"exit": v["exit"], "first_violation": v["first"], "wall_s": v["wall_s"]} for c, v in r["checks"].items()}
    json.dump(meta, open(mp, "w"), indent=1)
    notes = open(os.path.join(V, "seeded", name, "NOTES.md")).read() if os.path.exists(os.path.join(V, "seeded", name, "NOTES.md")) else ""
    what = ""
    for ln in notes.splitlines():
        ln = ln.strip("# ").strip()
        if len(ln) > 25 and not ln.lower().startswith(("mutation", "notes", "property")):
            what = ln
            break
    first = next((v["first"] for c, v in r["checks"].items() if v["exit"] == 1 and v["first"]), "")
    m = re.match(r"harness=(\w+): (.*)", first or "")
    how = ("`%s`" % m.group(1)) if m else ""
    verdict = ("**caught** by " + ", ".join(caught)) if caught else ("**missed**" + (" (exit 2 from %s)" % ", ".join(incon) if incon else ""))
    rows.append("| %s | %s | %s | %s |" % (name, what[:150].replace("|", "/"), verdict, how))
table = "| change | what it does | result (quick tier) | first harness that fails |\n|---|---|---|---|\n" + "\n".join(rows) + "\n"
p = os.path.join(V, "DESIGN.md")
s = open(p).read()
a = "<!-- SEEDED-TABLE-BEGIN -->"
b = "<!-- SEEDED-TABLE-END -->"
if a not in s:
    s = s.rstrip("\n") + "\n\n" + a + "\n" + b + "\n"
i, j = s.index(a), s.index(b)
s = s[:i + len(a)] + "\n" + table + s[j:]
open(p, "w").write(s)
print(table)
