#!/bin/bash
# archive_mut.sh ID variant  : copy a confirmed seeded change from /tmp/mut/out into /verif/seeded/<ID>-<variant>
ID=$1; V=$2; SRC=/tmp/mut/out/$ID/$V; DST=/verif/seeded/$ID-$V
grep -q DONE $SRC/confirm.log || { echo "not confirmed: $ID $V"; exit 1; }
mkdir -p $DST && cp $SRC/patch.diff $DST/ && cp $SRC/NOTES.md $DST/ 2>/dev/null; rm -rf $DST/demo; cp -r $SRC/demo $DST/demo; rm -rf $DST/demo/target
sed -i "s#/tmp/mut/$ID/nutype#/repo/nutype#g" $DST/demo/Cargo.toml
cp $SRC/confirm.log $DST/confirm.log
python3 - "$ID" "$V" <<'PY'
import json,sys,re
ID,V=sys.argv[1],sys.argv[2]
d=f"/verif/seeded/{ID}-{V}"
notes=open(d+"/NOTES.md").read() if __import__('os').path.exists(d+"/NOTES.md") else ""
log=open(d+"/confirm.log").read()
meta={"property":ID,"variant":V,"breaks":ID,
 "needs_to_manifest": notes[:1500],
 "confirmed_by_me":{"worktree":f"/tmp/mut/{ID} (scratch git worktree of /repo, removed afterwards)",
   "commands":["git apply patch.diff","cargo test --workspace --no-fail-fast --offline","(cd demo && cargo test --offline; cargo run --offline)","git checkout -- .","(cd demo && cargo test --offline; cargo run --offline)"],
   "observed": re.sub(r"\n+","\n",log)[-1800:]},
 "detected_by": None}
json.dump(meta,open(d+"/meta.json","w"),indent=1)
PY
echo archived $DST
